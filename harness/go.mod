module verifharness

go 1.21

require (
	github.com/elastic/go-libaudit/v2 v2.0.0
	golang.org/x/sys v0.11.0
)

replace github.com/elastic/go-libaudit/v2 => /repo
