package main

import (
	"bufio"
	"bytes"
	"flag"
	"fmt"
	"os"
	"strconv"
	"strings"
	"sync"
	"sync/atomic"
	"syscall"
	"time"

	libaudit "github.com/elastic/go-libaudit/v2"
)

// netlinkPorts lists the port ids of this machine's netlink sockets of one
// protocol, from /proc/net/netlink (independent of the library's internals).
func netlinkPorts(proto int) map[uint32]bool {
	out := map[uint32]bool{}
	f, err := os.Open("/proc/net/netlink")
	if err != nil {
		return out
	}
	defer f.Close()
	sc := bufio.NewScanner(f)
	for sc.Scan() {
		fl := strings.Fields(sc.Text())
		if len(fl) < 3 || fl[0] == "sk" {
			continue
		}
		eth, err1 := strconv.Atoi(fl[1])
		pid, err2 := strconv.ParseInt(fl[2], 10, 64)
		if err1 != nil || err2 != nil || eth != proto {
			continue
		}
		out[uint32(pid)] = true
	}
	return out
}

type capture struct{ last []byte }

func (c *capture) Write(p []byte) (int, error) {
	c.last = append([]byte(nil), p...)
	return len(p), nil
}

// newClientWithPort opens a NetlinkClient and finds its port id.
func newClientWithPort(proto int, groups uint32, cap *capture) (*libaudit.NetlinkClient, uint32, error) {
	return newClientWithBuf(proto, groups, cap, 16+libaudit.AuditMessageMaxLength+64)
}

func newClientWithBuf(proto int, groups uint32, cap *capture, bufLen int) (*libaudit.NetlinkClient, uint32, error) {
	before := netlinkPorts(proto)
	buf := make([]byte, bufLen)
	c, err := libaudit.NewNetlinkClient(proto, groups, buf, cap)
	if err != nil {
		return nil, 0, err
	}
	after := netlinkPorts(proto)
	var port uint32
	n := 0
	for p := range after {
		if !before[p] {
			port = p
			n++
		}
	}
	if n != 1 {
		c.Close()
		return nil, 0, fmt.Errorf("cannot determine the client's netlink port (%d candidates)", n)
	}
	return c, port, nil
}

func receiveEcho(c *libaudit.NetlinkClient, cap *capture) (ret string, typ int, data []byte, raw []byte) {
	return receiveEchoN(c, cap, 5000)
}

func receiveEchoN(c *libaudit.NetlinkClient, cap *capture, maxTries int) (ret string, typ int, data []byte, raw []byte) {
	cap.last = nil
	for tries := 0; tries < maxTries; tries++ {
		msgs, err := c.Receive(true, libaudit.VerifParseAuditMessage)
		if err == syscall.EAGAIN || err == syscall.EINTR {
			time.Sleep(time.Millisecond)
			continue
		}
		if err != nil || len(msgs) == 0 {
			return "err", 0, nil, cap.last
		}
		return "msgs", int(msgs[0].Header.Type), msgs[0].Data, cap.last
	}
	return "none", 0, nil, nil
}

func netlinkCasesCmd(args []string) int {
	fs := flag.NewFlagSet("netlink-cases", flag.ExitOnError)
	seed := fs.Int64("seed", 1, "seed")
	out := fs.String("out", "", "trace ndjson")
	reps := fs.Int("reps", 1, "random repetitions")
	senders := fs.Int("senders", 8, "concurrent senders")
	perSender := fs.Int("per-sender", 25, "sends per sender")
	rounds := fs.Int("rounds", 20, "concurrent rounds")
	fs.Parse(args)
	rng := newRand(*seed, 18)
	w := newNDWriter(*out)
	w.write(map[string]interface{}{"k": "meta", "family": "netlink"})
	stats := map[string]int{}
	skipped := []string{}
	trace := 8000000

	// A netlink socket of each protocol is held open for the whole run: it takes the port id that equals the
	// process id, so every client below gets a port id of the kernel's choosing (as the second socket of a
	// process does) and "the port id on the wire is the socket's" is not satisfied by the process id.
	for _, proto := range []int{syscall.NETLINK_ROUTE, syscall.NETLINK_USERSOCK} {
		if hfd, err := syscall.Socket(syscall.AF_NETLINK, syscall.SOCK_RAW|syscall.SOCK_CLOEXEC, proto); err == nil {
			if err := syscall.Bind(hfd, &syscall.SockaddrNetlink{Family: syscall.AF_NETLINK}); err != nil {
				syscall.Close(hfd)
			} else {
				defer syscall.Close(hfd)
			}
		}
	}

	// ---- framing: the kernel's verbatim echo on NETLINK_ROUTE -----------------------------
	cap := &capture{}
	c, port, err := newClientWithPort(syscall.NETLINK_ROUTE, 0, cap)
	if err != nil {
		skipped = append(skipped, "route socket: "+err.Error())
	} else {
		trace++
		w.write(map[string]interface{}{"k": "reset", "trace": trace})
		lengths := []int{0, 1, 3, 4, 15, 16, 17, 100, 4096, 8970}
		for i := 0; i < 6**reps; i++ {
			lengths = append(lengths, rng.Intn(8971))
		}
		// types above RTM_MAX are refused by rtnetlink with EOPNOTSUPP (nothing is configured);
		// control types below NLMSG_MIN_TYPE are skipped by the kernel and only acknowledged
		types := []int{1000, 1001, 1011, 1013, 1300, 0x7ff0, 0xffff, 0x8000, 1, 2, 3, 4}
		flagss := []int{5, 1, 5 | 0x100, 5 | 0x300, 5 | 0x400, 5 | 0x800, 0xffff, 4, 0x8005}
		for _, l := range lengths {
			for ti, t := range types {
				for fi, fl := range flagss {
					if l > 100 && (ti+fi)%5 != 0 {
						continue // large payloads with a rotating subset of type/flags
					}
					if fl&1 == 0 && fl&4 == 0 {
						continue // neither REQUEST nor ACK: the kernel sends nothing back
					}
					if (t < 16 || fl&1 == 0) && fl&4 == 0 {
						continue // a skipped message without ACK is not answered
					}
					payload := make([]byte, l)
					rng.Read(payload)
					var pidIn uint32
					if rng.Intn(4) == 0 {
						pidIn = rng.Uint32() | 1
					}
					msg := syscall.NetlinkMessage{Header: syscall.NlMsghdr{Type: uint16(t), Flags: uint16(fl), Pid: pidIn}, Data: payload}
					if rng.Intn(4) == 0 {
						// a header that was used before (a template, a copy of a received message): Send numbers it anew
						msg.Header.Seq = []uint32{1, 2, 3, rng.Uint32() | 1}[rng.Intn(4)]
					}
					seq, err := c.Send(msg)
					rec := map[string]interface{}{"k": "send", "g": 0, "type": t, "flags": fl, "pid_in": limbs(pidIn),
						"payload": bytesOf(payload), "ret": "ok", "ret_seq": limbs(seq), "port": limbs(port)}
					if err != nil {
						// nothing reached the kernel, nothing will come back: the failed Send is the observation
						rec["ret"], rec["full"], rec["echo"], rec["echo_ret"], rec["echo_type"], rec["echo_data"] = "err", false, []int{}, "none", 0, []int{}
						w.write(rec)
						stats["send_cases"]++
						continue
					}
					ret, typ, data, raw := receiveEcho(c, cap)
					if ret == "none" {
						fatal("the kernel did not answer a request of type %d flags %#x", t, fl)
					}
					full := false
					if len(raw) >= 20 {
						full = raw[16] != 0 || raw[17] != 0 || raw[18] != 0 || raw[19] != 0 // errno != 0: whole request echoed
					}
					rec["full"] = full
					rec["echo"] = bytesOf(raw)
					rec["echo_ret"] = ret
					rec["echo_type"] = typ
					rec["echo_data"] = bytesOf(data)
					w.write(rec)
					stats["send_cases"]++
				}
			}
		}
		// ---- flags that ask for no answer: the kernel must stay silent -------------------------------
		// (netlink_rcv_skb handles only NLM_F_REQUEST messages and acknowledges only NLM_F_ACK ones or errors;
		// a reply to such a message means the flags on the wire were not the caller's)
		for _, fl := range []int{0, 2, 0x100, 0x300, 0x10, 0xfffa} {
			for _, l := range []int{0, 4, 33} {
				payload := make([]byte, l)
				rng.Read(payload)
				seq, err := c.Send(syscall.NetlinkMessage{Header: syscall.NlMsghdr{Type: 0x7ff0, Flags: uint16(fl)}, Data: payload})
				ret, _, _, raw := receiveEchoN(c, cap, 30)
				rec := map[string]interface{}{"k": "ssend", "g": 0, "type": 0x7ff0, "flags": fl, "pid_in": limbs(0), "payload": bytesOf(payload),
					"ret": "ok", "ret_seq": limbs(seq), "port": limbs(port), "answered": ret != "none", "echo": bytesOf(raw)}
				if err != nil {
					rec["ret"] = "err"
				}
				w.write(rec)
				stats["silent_send_cases"]++
			}
		}
		c.Close()

		// ---- read buffers that the kernel's datagram fills exactly, or nearly ------------------
		for _, l := range []int{0, 1, 4, 100, 1000, 4096, 8970, rng.Intn(8971)} {
			payload := make([]byte, l)
			rng.Read(payload)
			dgram := 36 + (l+3)/4*4 // nlmsghdr + errno + the echoed request, padded to 4
			for _, spare := range []int{0, 1, 4, 64} {
				capB := &capture{}
				cb, bport, err := newClientWithBuf(syscall.NETLINK_ROUTE, 0, capB, dgram+spare)
				if err != nil {
					skipped = append(skipped, "route socket: "+err.Error())
					break
				}
				trace++
				w.write(map[string]interface{}{"k": "reset", "trace": trace})
				seq, err := cb.Send(syscall.NetlinkMessage{Header: syscall.NlMsghdr{Type: 0x7ff0, Flags: 5}, Data: payload})
				rec := map[string]interface{}{"k": "send", "g": 0, "type": 0x7ff0, "flags": 5, "pid_in": limbs(0),
					"payload": bytesOf(payload), "ret": "ok", "ret_seq": limbs(seq), "port": limbs(bport), "full": true, "spare": spare}
				if err != nil {
					rec["ret"], rec["echo"], rec["echo_ret"], rec["echo_type"], rec["echo_data"] = "err", []int{}, "none", 0, []int{}
					w.write(rec)
					stats["exact_buffer_cases"]++
					cb.Close()
					continue
				}
				ret, typ, data, raw := receiveEcho(cb, capB)
				if ret == "none" {
					fatal("the kernel did not answer a request of %d bytes", l)
				}
				if len(raw) != dgram && ret == "msgs" {
					fatal("the kernel's reply to a %d byte request has %d bytes, expected %d", l, len(raw), dgram)
				}
				rec["echo"], rec["echo_ret"], rec["echo_type"], rec["echo_data"] = bytesOf(raw), ret, typ, bytesOf(data)
				w.write(rec)
				stats["exact_buffer_cases"]++
				cb.Close()
			}
		}

		// ---- concurrent senders --------------------------------------------------------------
		for round := 0; round < *rounds; round++ {
			cap2 := &capture{}
			cc, cport, err := newClientWithPort(syscall.NETLINK_ROUTE, 0, cap2)
			if err != nil {
				skipped = append(skipped, "route socket: "+err.Error())
				break
			}
			trace++
			w.write(map[string]interface{}{"k": "reset", "trace": trace})
			type sent struct {
				g, i    int
				seq     uint32
				payload []byte
				ok      bool
			}
			results := make([][]sent, *senders)
			var unexpectedOK atomic.Bool
			oversize := make([]byte, 4<<20)
			var wg sync.WaitGroup
			start := make(chan struct{})
			for g := 0; g < *senders; g++ {
				wg.Add(1)
				go func(g int) {
					defer wg.Done()
					<-start
					for i := 0; i < *perSender; i++ {
						payload := bytes.Repeat([]byte{byte(g + 1), byte(i), byte(round)}, 1+(g*7+i)%20)
						if round%2 == 1 && g < 2 && i%2 == 1 {
							// a send the kernel refuses (larger than the socket's send buffer) among the others
							if _, err := cc.Send(syscall.NetlinkMessage{Header: syscall.NlMsghdr{Type: 0x7ff0, Flags: 5}, Data: oversize}); err == nil {
								unexpectedOK.Store(true)
							}
							continue
						}
						seq, err := cc.Send(syscall.NetlinkMessage{Header: syscall.NlMsghdr{Type: 0x7ff0, Flags: 5}, Data: payload})
						results[g] = append(results[g], sent{g, i, seq, payload, err == nil})
					}
				}(g)
			}
			close(start)
			wg.Wait()
			if unexpectedOK.Load() {
				fatal("a 4 MiB netlink datagram was accepted by the kernel: the refused-send stage needs a larger payload")
			}
			nsent := 0
			for g := range results {
				for _, s := range results[g] {
					if !s.ok {
						fatal("a small concurrent Send failed on an open socket")
					}
					nsent++
					w.write(map[string]interface{}{"k": "csend", "g": s.g + 1, "type": 0x7ff0, "flags": 5, "pid_in": limbs(0),
						"payload": bytesOf(s.payload), "ret_seq": limbs(s.seq), "port": limbs(cport)})
					stats["concurrent_sends"]++
				}
			}
			// one echo per send is expected; after the last one (or a lost one) wait only briefly
			got, want := 0, nsent
			for {
				wait := 5000
				if got >= want {
					wait = 50
				}
				ret, _, _, raw := receiveEchoN(cc, cap2, wait)
				if ret == "none" {
					break
				}
				got++
				w.write(map[string]interface{}{"k": "cecho", "echo": bytesOf(raw)})
			}
			w.write(map[string]interface{}{"k": "cend"})
			cc.Close()
		}
	}

	// ---- datagrams from a non-kernel sender (NETLINK_USERSOCK) -------------------------------
	const group = 7
	cap3 := &capture{}
	uc, uport, err := newClientWithPort(syscall.NETLINK_USERSOCK, 1<<(group-1), cap3)
	if err != nil {
		skipped = append(skipped, "usersock client: "+err.Error())
	} else {
		sfd, err := syscall.Socket(syscall.AF_NETLINK, syscall.SOCK_RAW|syscall.SOCK_CLOEXEC, syscall.NETLINK_USERSOCK)
		if err == nil {
			err = syscall.Bind(sfd, &syscall.SockaddrNetlink{Family: syscall.AF_NETLINK})
		}
		if err != nil {
			skipped = append(skipped, "usersock sender: "+err.Error())
		} else {
			trace++
			w.write(map[string]interface{}{"k": "reset", "trace": trace})
			for l := 1; l <= 64; l++ {
				for rep := 0; rep < 1+*reps; rep++ {
					for _, mode := range []string{"unicast", "multicast"} {
						dg := make([]byte, l)
						rng.Read(dg)
						if rep == 0 && l >= 16 {
							// a perfectly formed netlink message, only the sender is wrong
							le32(dg, uint32(l))
							dg[4], dg[5] = 0x14, 0x05 // type 1300
							le32(dg[8:], 0)
							le32(dg[12:], 0)
						}
						to := &syscall.SockaddrNetlink{Family: syscall.AF_NETLINK, Pid: uport}
						if mode == "multicast" {
							to = &syscall.SockaddrNetlink{Family: syscall.AF_NETLINK, Groups: 1 << (group - 1)}
						}
						// a multicast send also tries to reach port 0, where NETLINK_USERSOCK has no
						// kernel listener: ECONNREFUSED is reported although the group was served
						if err := syscall.Sendto(sfd, dg, 0, to); err != nil && !(mode == "multicast" && err == syscall.ECONNREFUSED) {
							skipped = append(skipped, fmt.Sprintf("%s send of %d bytes: %v", mode, l, err))
							continue
						}
						called := false
						var msgs []syscall.NetlinkMessage
						var rerr error
						delivered := false
						for tries := 0; tries < 5000; tries++ {
							msgs, rerr = uc.Receive(true, func(b []byte) ([]syscall.NetlinkMessage, error) {
								called = true
								return libaudit.VerifParseAuditMessage(b)
							})
							if rerr == syscall.EAGAIN || rerr == syscall.EINTR {
								time.Sleep(time.Millisecond)
								continue
							}
							delivered = true
							break
						}
						if !delivered {
							if mode == "multicast" {
								if len(skipped) < 5 {
									skipped = append(skipped, fmt.Sprintf("multicast datagram of %d bytes never arrived", l))
								}
								continue
							}
							fatal("a %s datagram of %d bytes never arrived at the client", mode, l)
						}
						rec := map[string]interface{}{"k": "recv", "from": "user", "mode": mode, "datagram": bytesOf(dg),
							"ret": "err", "parser_called": called, "type": 0, "data": []int{}}
						if rerr == nil && len(msgs) > 0 {
							rec["ret"] = "msgs"
							rec["type"] = int(msgs[0].Header.Type)
							rec["data"] = bytesOf(msgs[0].Data)
						} else if rerr == nil {
							rec["ret"] = "msgs"
						}
						w.write(rec)
						stats["user_datagrams"]++
					}
				}
			}
			syscall.Close(sfd)
		}
		uc.Close()
	}

	// ---- the audit message parser and AuditClient.Receive over a simulated transport ---------
	trace++
	w.write(map[string]interface{}{"k": "reset", "trace": trace})
	for l := 0; l <= 64; l++ {
		// the header's own length field says what it likes (the kernel's audit records put the payload
		// length there, other replies the whole length): everything after the 16 bytes is the payload
		lenFields := []int{-1, -1}
		for r := 0; r < *reps; r++ {
			lenFields = append(lenFields, -1)
		}
		if l >= 16 {
			lenFields = append(lenFields, 0, 16, l, l-1, l-2, l-3, l-4, l+1, l+3, l-16, 0x7fffffff)
		}
		for rep, lf := range lenFields {
			backing := make([]byte, l+32)
			for i := range backing {
				backing[i] = 0xA5
			}
			buf := backing[:l]
			switch rep {
			case 0:
				for i := range buf {
					buf[i] = 0
				}
			case 1:
				for i := range buf {
					buf[i] = 0xFF
				}
			default:
				rng.Read(buf)
			}
			if lf >= 0 {
				buf[0], buf[1], buf[2], buf[3] = byte(lf), byte(lf>>8), byte(lf>>16), byte(lf>>24)
			}
			for _, via := range []string{"parser", "areceive"} {
				rec := map[string]interface{}{"k": "parse", "via": via, "buf": bytesOf(buf), "ret": "err", "type": 0, "data": []int{}}
				func() {
					defer func() {
						if p := recover(); p != nil {
							rec["ret"] = "panic"
						}
					}()
					if via == "parser" {
						msgs, err := libaudit.VerifParseAuditMessage(buf)
						if err == nil && len(msgs) == 1 {
							rec["ret"], rec["type"], rec["data"] = "msg", int(msgs[0].Header.Type), bytesOf(msgs[0].Data)
						}
					} else {
						ac := &libaudit.AuditClient{Netlink: &fixedTransport{buf: buf}}
						m, err := ac.Receive(false)
						if err == nil && m != nil {
							rec["ret"], rec["type"], rec["data"] = "msg", int(m.Type), bytesOf(m.Data)
						}
					}
				}()
				w.write(rec)
				stats["parse_cases"]++
			}
		}
	}
	w.close()
	printJSON(map[string]interface{}{"stats": stats, "skipped": skipped})
	return 0
}

// fixedTransport hands one buffer to the parser, like a socket read would.
type fixedTransport struct{ buf []byte }

func (f *fixedTransport) Send(syscall.NetlinkMessage) (uint32, error) { return 0, nil }
func (f *fixedTransport) Close() error                                { return nil }
func (f *fixedTransport) Receive(nonBlocking bool, p libaudit.NetlinkParser) ([]syscall.NetlinkMessage, error) {
	return p(f.buf)
}

func init() { register("netlink-cases", netlinkCasesCmd) }
