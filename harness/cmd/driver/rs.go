package main

import (
	"crypto/sha1"
	"encoding/json"
	"flag"
	"fmt"
	"math"
	"regexp"
	"strconv"
	"sync"
	"time"

	libaudit "github.com/elastic/go-libaudit/v2"
	"github.com/elastic/go-libaudit/v2/auparse"
)

// ---- behaviours (input) ---------------------------------------------------

type rsOp struct {
	Op   string `json:"op"`             // push | pushraw | pushnil | maintain | close | tick | sleep | newnil
	Off  int    `json:"off,omitempty"`  // window offset of the sequence number
	Type int    `json:"type,omitempty"` // record type
	Bad  bool   `json:"bad,omitempty"`  // pushraw: malformed header
	Us   int    `json:"us,omitempty"`   // sleep: microseconds
}

type rsCb struct {
	K   string `json:"k"`   // ev | lost
	IDs []int  `json:"ids"` // ev: ids in delivered order
	N   []int  `json:"n"`   // lost: decimal digits
}

type rsCall struct {
	K    string `json:"k"` // "call"
	Op   string `json:"op"`
	ID   int    `json:"id"`
	Off  int    `json:"off"`
	Type int    `json:"type"`
	T0   int    `json:"t0"`
	T1   int    `json:"t1"`
	Cbs  []rsCb `json:"cbs"`
	Ret  string `json:"ret"`
}

type rsBehaviour struct {
	Trace     int      `json:"trace"`
	Max       int      `json:"max"`
	Tinf      bool     `json:"tinf"`
	TimeoutUs int      `json:"timeout_us"`
	Base      U32      `json:"base"`
	TickUs    int      `json:"tick_us,omitempty"`
	Scale     int      `json:"scale,omitempty"`    // real offset = off * scale (0 = 1)
	InfKind   int      `json:"inf_kind,omitempty"` // which "effectively infinite" duration stands for tinf
	Ops       []rsOp   `json:"ops"`
	Pred      []rsCall `json:"pred,omitempty"` // the model's prediction (replay mode)
	Timed     bool     `json:"timed,omitempty"`
	Src       string   `json:"src,omitempty"`
	// Variants: the same operations replayed with other bases / scales / record types of
	// the same class (expanded by the runner; trace ids are Trace*16+index)
	Variants []rsVariant `json:"variants,omitempty"`
}

type rsVariant struct {
	Base    U32 `json:"base"`
	Scale   int `json:"scale,omitempty"`
	InfKind int `json:"inf_kind,omitempty"`
	Retype  int `json:"retype,omitempty"` // seed for class-preserving record type substitution (0 = keep)
	Raw     int `json:"raw,omitempty"`    // every n-th push goes through Push(type, raw) instead of PushMessage
}

func expandVariants(b *rsBehaviour) []*rsBehaviour {
	if len(b.Variants) == 0 {
		return []*rsBehaviour{b}
	}
	var out []*rsBehaviour
	for i, v := range b.Variants {
		c := *b
		c.Variants = nil
		c.Trace = b.Trace*16 + i
		c.Base, c.Scale, c.InfKind = v.Base, v.Scale, v.InfKind
		if v.Scale > 1 {
			c.Src = "tlc-scaled"
		}
		if v.Retype != 0 || v.Raw != 0 {
			r := newRand(int64(v.Retype), int64(c.Trace))
			c.Ops = append([]rsOp(nil), b.Ops...)
			for j := range c.Ops {
				if c.Ops[j].Op != "push" {
					continue
				}
				if v.Retype != 0 {
					switch {
					case c.Ops[j].Type == 1320:
					case c.Ops[j].Type == 1327 || c.Ops[j].Type <= 1299 || c.Ops[j].Type >= 2100:
						c.Ops[j].Type = pick(r, rsCompletingTypes)
					default:
						c.Ops[j].Type = pick(r, rsPlainTypes)
					}
				}
				if v.Raw > 0 && r.Intn(v.Raw) == 0 {
					c.Ops[j].Op = "pushraw"
				}
			}
		}
		out = append(out, &c)
	}
	return out
}

type rsReset struct {
	K       string `json:"k"` // "reset"
	Trace   int    `json:"trace"`
	Max     int    `json:"max"`
	Tinf    bool   `json:"tinf"`
	Timeout int    `json:"timeout"`
	Base    U32    `json:"base"`
}

// durations that all mean "the timeout never fires" (C10's exact causes, C19's
// "effectively infinite" configuration)
var infDurations = []time.Duration{
	10000 * time.Hour,
	time.Duration(math.MaxInt64),
	time.Duration(math.MaxInt64 - 1),
	time.Duration(math.MaxInt64 / 2),
	100 * 365 * 24 * time.Hour,
}

// ---- the observing Stream ----------------------------------------------------

type rsStream struct {
	ids map[*auparse.AuditMessage]int
	raw map[int]string // id -> the text given to Push: what is delivered must be that text, not what the caller's buffer holds by then
	cur *[]rsCb
}

var vidRe = regexp.MustCompile(`vid=(\d+)`)

func (s *rsStream) idOf(m *auparse.AuditMessage) int {
	if m == nil {
		return -1
	}
	if id, ok := s.ids[m]; ok {
		return id
	}
	if mm := vidRe.FindStringSubmatch(m.RawData); mm != nil {
		if id, err := strconv.Atoi(mm[1]); err == nil {
			if want, ok := s.raw[id]; ok && want != m.RawData {
				return -1
			}
			return id
		}
	}
	return -1
}

func (s *rsStream) ReassemblyComplete(msgs []*auparse.AuditMessage) {
	ids := make([]int, 0, len(msgs))
	for _, m := range msgs {
		ids = append(ids, s.idOf(m))
	}
	*s.cur = append(*s.cur, rsCb{K: "ev", IDs: ids, N: []int{}})
}

func (s *rsStream) EventsLost(count int) {
	var d []int
	if count <= 0 {
		d = []int{0} // the monitor flags non-positive counts
	} else {
		d = digitsU64(uint64(count))
	}
	*s.cur = append(*s.cur, rsCb{K: "lost", IDs: []int{}, N: d})
}

// runBehaviour executes one behaviour against the real Reassembler and returns
// the observed call records.
// features of a trace, for the evidence file's non-triviality counts.
type rsFeat struct {
	ev, multi, disorder, late, gap, overflow, timedFlush, afterClose bool
}

func runBehaviour(b *rsBehaviour) (rsReset, []rsCall) {
	rs, cs, _ := runBehaviourF(b)
	return rs, cs
}

func runBehaviourF(b *rsBehaviour) (rsReset, []rsCall, rsFeat) {
	var feat rsFeat
	und := map[int]bool{}  // offsets pushed and not yet delivered
	offOf := map[int]int{} // id -> offset
	highDelivered, highPushed, slept, closedSeen := -1, -1, false, false
	timeout := time.Duration(b.TimeoutUs) * time.Microsecond
	if b.Tinf {
		timeout = infDurations[b.InfKind%len(infDurations)]
	}
	scale := b.Scale
	if scale <= 0 {
		scale = 1
	}
	reset := rsReset{K: "reset", Trace: b.Trace, Max: b.Max, Tinf: b.Tinf, Timeout: b.TimeoutUs, Base: b.Base}
	st := &rsStream{ids: map[*auparse.AuditMessage]int{}, raw: map[int]string{}}
	rawBuf := make([]byte, 0, 256) // one receive buffer for every Push, reused and overwritten as a netlink read loop does
	var calls []rsCall
	start := time.Now()
	r, err := libaudit.NewReassembler(b.Max, timeout, st)
	if err != nil {
		fatal("NewReassembler: %v", err)
	}
	base := b.Base.val()
	tick := time.Duration(b.TickUs) * time.Microsecond
	for i, op := range b.Ops {
		id := i + 1
		switch op.Op {
		case "tick":
			time.Sleep(tick)
			slept = true
			continue
		case "sleep":
			time.Sleep(time.Duration(op.Us) * time.Microsecond)
			slept = true
			continue
		}
		if (op.Op == "push" || op.Op == "pushraw") && !op.Bad && op.Type != 1320 {
			offOf[id] = op.Off
			if !und[op.Off] && len(und)+1 > b.Max {
				feat.overflow = true
			}
			und[op.Off] = true
			if op.Off < highPushed {
				feat.disorder = true
			}
			if op.Off < highDelivered {
				feat.late = true
			}
			if op.Off > highPushed {
				highPushed = op.Off
			}
		}
		if closedSeen {
			feat.afterClose = true
		}
		if op.Op == "close" {
			closedSeen = true
		}
		c := rsCall{K: "call", Op: op.Op, ID: id, Off: op.Off * scale, Type: op.Type, Cbs: []rsCb{}, Ret: "ok"}
		st.cur = &c.Cbs
		seq := base + uint32(op.Off*scale)
		c.T0 = int(time.Since(start) / time.Microsecond)
		func() {
			defer func() {
				if p := recover(); p != nil {
					c.Ret = "panic"
				}
			}()
			switch op.Op {
			case "push":
				m := &auparse.AuditMessage{
					RecordType: auparse.AuditMessageType(op.Type),
					Timestamp:  time.Unix(1490137971, 0),
					Sequence:   seq,
					RawData:    fmt.Sprintf("audit(1490137971.011:%d): vid=%d", seq, id),
					Payload:    id,
				}
				st.ids[m] = id
				r.PushMessage(m)
			case "pushraw":
				raw := fmt.Sprintf("audit(1490137971.011:%d): vid=%d", seq, id)
				if op.Bad {
					raw = fmt.Sprintf("audit(1490137971.011:%dx vid=%d", seq, id)
				}
				st.raw[id] = raw
				rawBuf = append(rawBuf[:0], raw...)
				if err := r.Push(auparse.AuditMessageType(op.Type), rawBuf); err != nil {
					c.Ret = "err"
				}
				for j := range rawBuf { // Push copies what it is given: the caller's buffer is the caller's again
					rawBuf[j] = 'x'
				}
			case "pushnil":
				r.PushMessage(nil)
			case "maintain":
				if err := r.Maintain(); err != nil {
					c.Ret = "err"
				}
			case "close":
				if err := r.Close(); err != nil {
					c.Ret = "err"
				}
			case "newnil":
				r2, err := libaudit.NewReassembler(b.Max, timeout, nil)
				if err != nil && r2 == nil {
					c.Ret = "err"
				}
			default:
				fatal("unknown op %q", op.Op)
			}
		}()
		c.T1 = int(time.Since(start)/time.Microsecond) + 1
		calls = append(calls, c)
		for _, cb := range c.Cbs {
			if cb.K == "lost" {
				feat.gap = true
				continue
			}
			feat.ev = true
			if len(cb.IDs) > 1 {
				feat.multi = true
			}
			if slept && op.Op != "close" {
				feat.timedFlush = true
			}
			for _, id := range cb.IDs {
				if o, ok := offOf[id]; ok {
					delete(und, o)
					if o > highDelivered {
						highDelivered = o
					}
				}
			}
		}
	}
	return reset, calls, feat
}

func dropLost(cbs []rsCb) []rsCb {
	var out []rsCb
	for _, c := range cbs {
		if c.K != "lost" {
			out = append(out, c)
		}
	}
	return out
}

// sameCalls compares the model's prediction with the real records. With
// scaled offsets the reported loss counts legitimately differ from the
// (unscaled) prediction, so EventsLost callbacks are left to TLC's judgement.
func sameCalls(pred, real []rsCall, scaled bool) bool {
	// pred contains "tick" records, real does not.
	j := 0
	for _, p := range pred {
		if p.Op == "tick" {
			continue
		}
		if j >= len(real) {
			return false
		}
		q := real[j]
		j++
		qop := q.Op
		if qop == "pushraw" {
			qop = "push"
		}
		pc, qc := p.Cbs, q.Cbs
		if scaled {
			pc, qc = dropLost(pc), dropLost(qc)
		}
		if p.Op != qop || p.ID != q.ID || p.Ret != q.Ret || len(pc) != len(qc) {
			return false
		}
		for k := range pc {
			a, b := pc[k], qc[k]
			if a.K != b.K || !sameInts(a.IDs, b.IDs) || !sameInts(a.N, b.N) {
				return false
			}
		}
	}
	return j == len(real)
}

func sameInts(a, b []int) bool {
	if len(a) != len(b) {
		return false
	}
	for i := range a {
		if a[i] != b[i] {
			return false
		}
	}
	return true
}

// rs-run: execute behaviours; write traces that need TLC's verdict.
func rsRun(args []string) int {
	fs := flag.NewFlagSet("rs-run", flag.ExitOnError)
	in := fs.String("in", "", "behaviours ndjson")
	out := fs.String("out", "", "trace ndjson to be judged by TLC")
	sample := fs.Int("sample", 0, "also judge every n-th behaviour whose outcome equals the prediction (0 = none)")
	all := fs.Bool("all", false, "judge every trace")
	par := fs.Int("par", 64, "timed behaviours executed concurrently")
	fs.Parse(args)

	var behs []*rsBehaviour
	readND(*in, func(line []byte) {
		b := &rsBehaviour{}
		if err := json.Unmarshal(line, b); err != nil {
			fatal("bad behaviour: %v", err)
		}
		behs = append(behs, expandVariants(b)...)
	})

	type result struct {
		reset rsReset
		calls []rsCall
		feat  rsFeat
	}
	results := make([]result, len(behs))
	// Untimed behaviours run sequentially (microseconds each); timed ones sleep,
	// so they run concurrently in batches.
	var wg sync.WaitGroup
	sem := make(chan struct{}, *par)
	for i, b := range behs {
		if b.Timed {
			wg.Add(1)
			sem <- struct{}{}
			go func(i int, b *rsBehaviour) {
				defer wg.Done()
				defer func() { <-sem }()
				rs, cs, ft := runBehaviourF(b)
				results[i] = result{rs, cs, ft}
			}(i, b)
		}
	}
	wg.Wait()
	for i, b := range behs {
		if !b.Timed {
			rs, cs, ft := runBehaviourF(b)
			results[i] = result{rs, cs, ft}
		}
	}
	// distinct behaviours (configuration + operations) per feature
	distinct := map[string]map[[20]byte]bool{}
	mark := func(name string, on bool, h [20]byte) {
		if on {
			if distinct[name] == nil {
				distinct[name] = map[[20]byte]bool{}
			}
			distinct[name][h] = true
		}
	}
	for i, b := range behs {
		key, _ := json.Marshal([]interface{}{b.Max, b.Tinf, b.TimeoutUs, b.Base, b.Scale, b.InfKind, b.Ops})
		h := sha1.Sum(key)
		f := results[i].feat
		mark("any", true, h)
		mark("ev", f.ev, h)
		mark("multi", f.multi, h)
		mark("disorder", f.disorder, h)
		mark("late", f.late, h)
		mark("gap", f.gap, h)
		mark("gap_or_late", f.gap || f.late, h)
		mark("overflow", f.overflow, h)
		mark("timed_flush", f.timedFlush, h)
		mark("after_close", f.afterClose, h)
	}
	features := map[string]int{}
	for k, v := range distinct {
		features[k] = len(v)
	}

	w := newNDWriter(*out)
	w.write(map[string]interface{}{"k": "meta", "family": "reassembler"})
	stats := map[string]int{"behaviours": len(behs)}
	var mismatches []int
	for i, b := range behs {
		judge := *all || b.Timed || b.Pred == nil || b.Scale > 1
		if b.Pred != nil {
			stats["with_prediction"]++
			if sameCalls(b.Pred, results[i].calls, b.Scale > 1) {
				stats["equal_to_prediction"]++
				if !b.Timed && b.Scale <= 1 {
					stats["inherited"]++
				}
				if *sample > 0 && i%*sample == 0 {
					judge = true
				}
			} else {
				stats["differs_from_prediction"]++
				if len(mismatches) < 20 {
					mismatches = append(mismatches, b.Trace)
				}
				judge = true
			}
		}
		if judge {
			stats["judged_by_tlc"]++
			w.write(results[i].reset)
			for _, c := range results[i].calls {
				w.write(c)
				stats["call_records"]++
			}
		}
	}
	w.close()
	printJSON(map[string]interface{}{"stats": stats, "mismatch_traces": mismatches, "features": features})
	return 0
}

func init() {
	register("rs-run", rsRun)
}
