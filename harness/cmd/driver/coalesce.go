package main

import (
	"crypto/sha1"
	"encoding/hex"
	"encoding/json"
	"flag"
	"fmt"
	"math/rand"
	"os"
	"path/filepath"
	"regexp"
	"sort"
	"strconv"
	"strings"
	"sync"
	"time"

	"gopkg.in/yaml.v3"

	"github.com/elastic/go-libaudit/v2/aucoalesce"
	"github.com/elastic/go-libaudit/v2/auparse"
)

// ---- building message groups -------------------------------------------------------------

type recSpec struct {
	typ  int
	body string
}

func mkMsgs(specs []recSpec, sec int64, ms int, seq uint32) []*auparse.AuditMessage {
	var out []*auparse.AuditMessage
	for _, s := range specs {
		m, err := auparse.Parse(auparse.AuditMessageType(s.typ), fmt.Sprintf("audit(%d.%03d:%d): %s", sec, ms, seq, s.body))
		if err != nil {
			continue
		}
		out = append(out, m)
	}
	return out
}

var coSyscalls = map[string]int{"open": 2, "execve": 59, "connect": 42, "accept": 43, "bind": 49, "unlink": 87, "rename": 82,
	"chmod": 90, "mount": 165, "recvfrom": 45, "sendto": 44, "openat": 257, "kill": 62, "setuid": 105, "ptrace": 101, "nosuch": 999,
	"mkdir": 83, "mkdirat": 258, "renameat": 264, "renameat2": 316, "symlink": 88, "link": 86, "rmdir": 84, "creat": 85, "chown": 92, "truncate": 76}

// coAcct: an account name, often one the (injected) user database knows, aliases included
func coAcct(r *rand.Rand) string {
	if r.Intn(3) != 0 {
		return []string{"root", "toor", "alice", "al", "bob"}[r.Intn(5)]
	}
	return coWord(r)
}

// coAddr: what PAM and sshd put into addr= - an IPv4 or IPv6 address, or a host name
func coAddr(r *rand.Rand) string {
	switch r.Intn(4) {
	case 0:
		return "h" + coWord(r)
	case 1:
		return fmt.Sprintf("fe80::%x:%x", r.Intn(65536), r.Intn(65536))
	}
	return fmt.Sprintf("%d.%d.%d.%d", 1+r.Intn(250), r.Intn(256), r.Intn(256), 1+r.Intn(250))
}

// coIDs: an id as the kernel prints it, the unset id (both spellings) included - for every id field, not only auid
func coIDs(r *rand.Rand) string {
	if r.Intn(8) == 0 {
		return []string{"4294967295", "-1"}[r.Intn(2)]
	}
	return strconv.Itoa(coID(r))
}

func coID(r *rand.Rand) int {
	if r.Intn(2) == 0 {
		return []int{0, 1000, 1001}[r.Intn(3)]
	}
	return r.Intn(2000)
}

func coWord(r *rand.Rand) string {
	const cs = "abcdefghijklmnopqrstuvwxyz0123456789_./-"
	n := 1 + r.Intn(10)
	b := make([]byte, n)
	for i := range b {
		b[i] = cs[r.Intn(len(cs))]
	}
	return string(b)
}

// keys that real record types share: used to provoke collisions between records
var sharedKeys = []string{"pid", "uid", "comm", "exe", "name", "path", "addr", "ses", "exit", "tty", "dev", "inode", "op", "res2", "gid", "ppid", "cwd", "proctitle", "hostname", "terminal",
	// keys under which the coalescer files EXECVE and SOCKADDR fields: a collision is a collision
	"argc", "socket_addr", "socket_port", "socket_family", "socket_path", "socket_saddr"}

func extras(r *rand.Rand, n int) string {
	var sb strings.Builder
	for i := 0; i < n; i++ {
		fmt.Fprintf(&sb, " %s=%s", sharedKeys[r.Intn(len(sharedKeys))], coWord(r))
	}
	if r.Intn(2) == 0 {
		fmt.Fprintf(&sb, " x%s=%s", coWord(r)[:1], coWord(r)) // a key no other record has
	}
	return sb.String()
}

func syscallBody(r *rand.Rand, name string, items int) string {
	succ, exit := "yes", "0"
	if r.Intn(4) == 0 {
		succ, exit = "no", "-13"
	}
	key := `"k` + coWord(r) + `"`
	switch r.Intn(6) {
	case 0: // several keys, joined by 0x01 and therefore written in hex; a key is any text the rule's author chose
		ks := []string{coWord(r), " " + coWord(r), coWord(r) + " ", "\t" + coWord(r) + " k", coWord(r) + "=" + coWord(r), " "}
		r.Shuffle(len(ks), func(i, j int) { ks[i], ks[j] = ks[j], ks[i] })
		key = strings.ToUpper(hex.EncodeToString([]byte(strings.Join(ks[:1+r.Intn(4)], "\x01"))))
	case 1:
		key = "(null)"
	}
	return fmt.Sprintf(`arch=c000003e syscall=%d success=%s exit=%s a0=%x a1=%x a2=%x a3=%x items=%d ppid=%d pid=%d auid=%d uid=%s gid=%s euid=%s suid=%s fsuid=%s egid=%s sgid=%s fsgid=%s tty=pts0 ses=%d comm="%s" exe="/usr/bin/%s" subj=u_%s:r_%s:t_%s:s0 key=%s`,
		coSyscalls[name], succ, exit, r.Intn(1<<20), r.Intn(1<<20), r.Intn(1<<20), r.Intn(1<<20), items, 1+r.Intn(30000), 1+r.Intn(30000),
		[]int{0, 1000, 4294967295}[r.Intn(3)], coIDs(r), coIDs(r), coIDs(r), coIDs(r), coIDs(r), coIDs(r), coIDs(r), coIDs(r),
		1+r.Intn(500), coWord(r), coWord(r), coWord(r), coWord(r), coWord(r), key)
}

func pathBody(r *rand.Rand, item int, mode int) string {
	nt := []string{"NORMAL", "PARENT", "CREATE", "DELETE", "UNKNOWN"}[r.Intn(5)]
	b := fmt.Sprintf(`item=%d name="/%s/%s" inode=%d dev=08:%02d mode=0%o ouid=%d ogid=%d rdev=%02d:%02d obj=u_%s:object_r:t_%s:s0 nametype=%s cap_fp=0 cap_fi=0 cap_fe=0 cap_fver=0`,
		item, coWord(r), coWord(r), 1+r.Intn(1000000), r.Intn(20), mode, r.Intn(2000), r.Intn(2000), r.Intn(90), r.Intn(90), coWord(r), coWord(r), nt)
	if r.Intn(4) == 0 { // names relative to the cwd, as the kernel records them
		rel := []string{coWord(r) + "/" + coWord(r), "./" + coWord(r), coWord(r), "../" + coWord(r), "."}[r.Intn(5)]
		b = regexp.MustCompile(` name="[^"]*"`).ReplaceAllString(b, ` name="`+rel+`"`)
	}
	if r.Intn(6) == 0 { // a PATH record need not carry every field (a name-only or mode-less record of an older kernel)
		drop := []string{"mode", "inode", "rdev", "ouid", "ogid", "name"}[r.Intn(6)]
		b = regexp.MustCompile(` `+drop+`=\S+`).ReplaceAllString(b, "")
	}
	return b
}

var stModes = []int{0o100644, 0o100755, 0o040755, 0o040700, 0o020620, 0o060660, 0o010644, 0o120777, 0o140755, 0o104755, 0o102755, 0o041777}

func randomGroup(r *rand.Rand) ([]recSpec, string) {
	switch r.Intn(10) {
	case 0, 1, 2: // a single record of some type range
		types := []int{1100, 1101, 1103, 1104, 1105, 1106, 1108, 1112, 1113, 1114, 1116, 1123, 1130, 1131, 1006, 1305, 1400, 1107, 1326, 1327,
			1700, 1701, 1702, 2100, 2111, 2200, 2300, 2400, 2500, 1800, 1200, 1300, 1309, 1302, 1307, 1319, 1124, 1334, 2000, 65000, 1403}
		t := types[r.Intn(len(types))]
		body := fmt.Sprintf(`pid=%d uid=%d auid=%d ses=%d subj=u_%s:r_%s:t_%s:s0-s0:c0.c1023 msg='op=%s acct="%s" exe="/usr/sbin/%s" hostname=%s addr=%s terminal=%s res=%s'%s`,
			1+r.Intn(30000), coID(r), []int{0, 1000, 4294967295}[r.Intn(3)], 1+r.Intn(500), coWord(r), coWord(r), coWord(r), coWord(r), coAcct(r),
			coWord(r), coWord(r), coAddr(r), coWord(r), []string{"success", "failed"}[r.Intn(2)], extras(r, r.Intn(3)))
		switch t {
		case 1300:
			body = syscallBody(r, "open", 0)
		case 1309:
			body = `argc=2 a0="ls" a1="-l"`
		case 1302:
			body = pathBody(r, 0, stModes[r.Intn(len(stModes))])
		case 1307:
			body = `cwd="/root"`
		case 1327:
			body = "proctitle=" + strings.ToUpper(hex.EncodeToString([]byte("cat\x00/etc/passwd")))
		case 1400:
			body = fmt.Sprintf(`avc:  denied  { read } for  pid=%d comm="%s" name="%s" dev="sda1" ino=%d scontext=a:b:c:s0 tcontext=d:e:f:s0 tclass=file permissive=0`, r.Intn(30000), coWord(r), coWord(r), r.Intn(100000))
		}
		specs := []recSpec{{t, body}}
		if r.Intn(5) == 0 {
			specs = append(specs, recSpec{1320, ""})
		}
		return specs, "single"
	}
	// a SYSCALL group
	names := []string{"open", "execve", "connect", "accept", "bind", "unlink", "rename", "chmod", "mount", "recvfrom", "sendto", "openat", "kill", "nosuch",
		"mkdir", "mkdirat", "renameat", "renameat2", "symlink", "link", "rmdir", "creat", "chown", "truncate"}
	name := names[r.Intn(len(names))]
	npaths := r.Intn(6) // around and beyond the path index the normalisation of the syscall names (0, 1 or 2)
	var rest []recSpec
	if r.Intn(2) == 0 {
		rest = append(rest, recSpec{1307, `cwd="/` + coWord(r) + `"` + extras(r, r.Intn(3))})
	}
	for i := 0; i < npaths; i++ {
		rest = append(rest, recSpec{1302, pathBody(r, i, stModes[r.Intn(len(stModes))]) + extras(r, r.Intn(2))})
	}
	if r.Intn(3) == 0 {
		argc := 1 + r.Intn(4)
		b := fmt.Sprintf("argc=%d", argc)
		for i := 0; i < argc; i++ {
			if r.Intn(3) == 0 {
				b += fmt.Sprintf(" a%d=%s", i, strings.ToUpper(hex.EncodeToString([]byte("a b "+coWord(r)))))
			} else {
				b += fmt.Sprintf(` a%d="%s"`, i, coWord(r))
			}
		}
		switch r.Intn(8) { // fields beyond argc and a0..a<argc-1>
		case 0:
			b += fmt.Sprintf(` a%d="%s"`, argc, coWord(r))
		case 1:
			b += fmt.Sprintf(` x%s=%s`, coWord(r)[:1], coWord(r))
		}
		rest = append(rest, recSpec{1309, b})
	}
	if r.Intn(3) == 0 {
		raw := []byte{2, 0, byte(r.Intn(256)), byte(r.Intn(256)), byte(r.Intn(256)), byte(r.Intn(256)), byte(r.Intn(256)), byte(r.Intn(256)), 0, 0, 0, 0, 0, 0, 0, 0}
		switch r.Intn(7) {
		case 0:
			raw = append([]byte{1, 0}, []byte("/run/"+coWord(r)+"\x00")...)
		case 5: // a unix socket without a name: the record says so with an empty path
			raw = []byte{1, 0}
		case 6: // an abstract unix socket: the name starts with NUL
			raw = append([]byte{1, 0, 0}, []byte(coWord(r))...)
		case 1, 2: // IPv6, with and without flow label and scope id (they become fields of their own)
			raw = make([]byte, 28)
			r.Read(raw)
			raw[0], raw[1] = 10, 0
			if r.Intn(2) == 0 {
				copy(raw[4:8], []byte{0, 0, 0, 0})
			}
			if r.Intn(2) == 0 {
				copy(raw[24:28], []byte{0, 0, 0, 0})
			}
		}
		sa := "saddr=" + strings.ToUpper(hex.EncodeToString(raw))
		if r.Intn(3) == 0 { // what an enriching daemon, or a later kernel, may add to the record
			sa += extras(r, 1+r.Intn(2))
		}
		rest = append(rest, recSpec{1306, sa})
	}
	if r.Intn(2) == 0 {
		rest = append(rest, recSpec{1327, "proctitle=" + strings.ToUpper(hex.EncodeToString([]byte(coWord(r)+"\x00"+coWord(r)))) + extras(r, r.Intn(2))})
	}
	if r.Intn(4) == 0 {
		rest = append(rest, recSpec{1400, fmt.Sprintf(`avc:  denied  { read write } for  pid=%d comm="%s" name="%s" dev="sda1" ino=%d scontext=a:b:c:s0 tcontext=d:e:f:s0 tclass=file permissive=0`, r.Intn(30000), coWord(r), coWord(r), r.Intn(99999)) + extras(r, r.Intn(2))})
	}
	if r.Intn(4) == 0 {
		rest = append(rest, recSpec{[]int{1321, 1323, 1325, 1303, 1334}[r.Intn(5)], fmt.Sprintf("fd=%d flags=0x%x", r.Intn(10), r.Intn(256)) + extras(r, r.Intn(4))})
	}
	if r.Intn(4) == 0 { // a record with an outcome of its own, which need not be the system call's
		res := []string{"res=0", "res=1", "res=failed", "res=success", "success=no", "success=yes", "success=0", "res=no"}[r.Intn(8)]
		body := [][2]interface{}{
			{1305, fmt.Sprintf(`auid=%d ses=%d op=add_rule key="%s" list=4 %s`, coID(r), 1+r.Intn(500), coWord(r), res)},
			{1805, fmt.Sprintf(`auid=%d ses=%d op=policy_update cause=%s comm="%s" %s`, coID(r), 1+r.Intn(500), coWord(r), coWord(r), res)},
			{1325, fmt.Sprintf(`table=%s family=2 entries=%d op=xt_replace %s`, coWord(r), r.Intn(50), res)},
			{1400, fmt.Sprintf(`avc:  granted  { load_policy } for  pid=%d comm="%s" scontext=a:b:c:s0 tcontext=d:e:f:s0 tclass=security %s`, r.Intn(30000), coWord(r), res)},
		}[r.Intn(4)]
		rest = append(rest, recSpec{body[0].(int), body[1].(string) + extras(r, r.Intn(2))})
	}
	r.Shuffle(len(rest), func(i, j int) { rest[i], rest[j] = rest[j], rest[i] })
	sys := recSpec{1300, syscallBody(r, name, npaths)}
	var specs []recSpec
	kind := "syscall-first"
	switch r.Intn(6) {
	case 0: // an AVC (or other) record ahead of the SYSCALL record
		if len(rest) > 0 && rest[0].typ != 1302 && rest[0].typ != 1306 && rest[0].typ != 1309 {
			specs = append([]recSpec{rest[0], sys}, rest[1:]...)
			kind = "special-first"
			break
		}
		fallthrough
	case 1: // any order: the SYSCALL record anywhere, PATH/EXECVE/SOCKADDR records ahead of it
		at := r.Intn(len(rest) + 1)
		specs = append(specs, rest[:at]...)
		specs = append(specs, sys)
		specs = append(specs, rest[at:]...)
		if at > 0 {
			kind = "any-order"
		}
	default:
		specs = append([]recSpec{sys}, rest...)
	}
	if r.Intn(12) == 0 && len(rest) >= 2 { // multi-record group without SYSCALL: must be refused
		specs = rest
		kind = "no-syscall"
	}
	if r.Intn(3) == 0 {
		specs = append(specs, recSpec{1320, ""})
	}
	return specs, kind
}

// ---- flattening an event ------------------------------------------------------------------------------

func kvList(m map[string]string) [][][]int {
	keys := make([]string, 0, len(m))
	for k := range m {
		keys = append(keys, k)
	}
	sort.Strings(keys)
	out := [][][]int{}
	for _, k := range keys {
		out = append(out, [][]int{bytesOfS(k), bytesOfS(m[k])})
	}
	return out
}

func flatten(ev *aucoalesce.Event) (locs [][]interface{}, warnings [][]int) {
	locs = [][]interface{}{}
	add := func(loc, key, val string) {
		locs = append(locs, []interface{}{loc, bytesOfS(key), bytesOfS(val)})
	}
	for k, v := range ev.Data {
		add("data", k, v)
	}
	for _, p := range ev.Paths {
		for k, v := range p {
			add("paths", k, v)
		}
	}
	add("process", "pid", ev.Process.PID)
	add("process", "ppid", ev.Process.PPID)
	add("process", "title", ev.Process.Title)
	add("process", "name", ev.Process.Name)
	add("process", "exe", ev.Process.Exe)
	add("process", "cwd", ev.Process.CWD)
	for _, a := range ev.Process.Args {
		add("process", "args", a)
	}
	for k, v := range ev.User.IDs {
		add("user.ids", k, v)
	}
	for k, v := range ev.User.SELinux {
		add("user.selinux", k, v)
	}
	add("result", "", ev.Result)
	add("session", "", ev.Session)
	for _, t := range ev.Tags {
		add("tags", "", t)
	}
	for name, a := range map[string]*aucoalesce.Address{"source": ev.Source, "destination": ev.Dest} {
		if a != nil {
			add(name, "ip", a.IP)
			add(name, "port", a.Port)
			add(name, "path", a.Path)
			add(name, "hostname", a.Hostname)
		}
	}
	warnings = [][]int{}
	for _, wn := range ev.Warnings {
		warnings = append(warnings, bytesOfS(wn.Error()))
	}
	return locs, warnings
}

func identity(sec int64, ns int, seq uint32, typ int) map[string]interface{} {
	return map[string]interface{}{"sec": digitsU64(uint64(sec)), "ms": ns / 1000000, "seq": digitsU64(uint64(seq)), "type": typ}
}

func eventRecord(trace int, kind string, specs []recSpec, r *rand.Rand) map[string]interface{} {
	sec, ms, seq := int64(1490137971+r.Intn(100000)), r.Intn(1000), r.Uint32()
	msgs := mkMsgs(specs, sec, ms, seq)
	rec := map[string]interface{}{"k": "event", "trace": trace, "kind": kind, "ret": "err", "n_in": len(msgs), "has_syscall": false,
		"recs": []interface{}{}, "locs": []interface{}{}, "warnings": []interface{}{}, "has_file": false, "paths": []interface{}{},
		"obj_primary": []int{}, "file": map[string]interface{}{"path": []int{}, "inode": []int{}, "device": []int{}, "uid": []int{}, "gid": []int{}},
		"id": identity(0, 0, 0, 0), "first": identity(0, 0, 0, 0)}
	// what each record reports before coalescing (a trailing EOE is dropped by the library)
	eff := msgs
	if len(eff) > 0 && eff[len(eff)-1].RecordType == auparse.AUDIT_EOE {
		eff = eff[:len(eff)-1]
	}
	recs := []interface{}{}
	for _, m := range eff {
		d, err := m.Data()
		cp := map[string]string{}
		for k, v := range d {
			cp[k] = v
		}
		recs = append(recs, map[string]interface{}{"type": int(m.RecordType), "data": kvList(cp), "err": err != nil})
		if m.RecordType == auparse.AUDIT_SYSCALL {
			rec["has_syscall"] = true
		}
	}
	rec["recs"] = recs
	if len(eff) > 0 {
		rec["first"] = identity(eff[0].Timestamp.Unix(), eff[0].Timestamp.Nanosecond(), eff[0].Sequence, int(eff[0].RecordType))
	}
	var ev *aucoalesce.Event
	var err error
	func() {
		defer func() {
			if p := recover(); p != nil {
				rec["ret"] = "panic"
			}
		}()
		ev, err = aucoalesce.CoalesceMessages(msgs)
	}()
	if rec["ret"] == "panic" {
		return rec
	}
	if err == nil && ev != nil {
		rec["ret"] = "event"
		rec["id"] = identity(ev.Timestamp.Unix(), ev.Timestamp.Nanosecond(), ev.Sequence, int(ev.Type))
		rec["locs"], rec["warnings"] = flatten(ev)
		paths := []interface{}{}
		for _, p := range ev.Paths {
			paths = append(paths, kvList(p))
		}
		rec["paths"] = paths
		rec["obj_primary"] = bytesOfS(ev.Summary.Object.Primary)
		if ev.File != nil {
			rec["has_file"] = true
			rec["file"] = map[string]interface{}{"path": bytesOfS(ev.File.Path), "inode": bytesOfS(ev.File.Inode), "device": bytesOfS(ev.File.Device),
				"uid": bytesOfS(ev.File.UID), "gid": bytesOfS(ev.File.GID)}
		}
	} else if ev != nil {
		rec["ret"] = "event" // a partial event together with an error
	}
	return rec
}

func coalesceEventsCmd(args []string) int {
	fs := flag.NewFlagSet("coalesce-events", flag.ExitOnError)
	out := fs.String("out", "", "trace ndjson")
	seed := fs.Int64("seed", 1, "seed")
	n := fs.Int("n", 3000, "random groups")
	modes := fs.Bool("modes", true, "sweep all 65536 st_mode values")
	fs.Parse(args)
	rng := newRand(*seed, 9)
	w := newNDWriter(*out)
	w.write(map[string]interface{}{"k": "meta", "family": "coalesce"})
	stats := map[string]int{}
	trace := 0
	// the refusals the statement names
	for _, specs := range [][]recSpec{{}, {{1320, ""}}, {{1307, `cwd="/"`}, {1302, pathBody(rng, 0, 0o100644)}},
		{{1307, `cwd="/"`}, {1327, "proctitle=6C73"}, {1320, ""}}} {
		trace++
		w.write(eventRecord(trace, "refusal", specs, rng))
		stats["refusals"]++
	}
	for i := 0; i < *n; i++ {
		specs, kind := randomGroup(rng)
		trace++
		rec := eventRecord(trace, kind, specs, rng)
		w.write(rec)
		stats["groups"]++
		stats["kind_"+kind]++
		stats["ret_"+rec["ret"].(string)]++
	}
	if *modes {
		for mode := 0; mode < 65536; mode++ {
			specs := []recSpec{{1300, syscallBody(rng, "open", 1)},
				{1302, fmt.Sprintf(`item=0 name="/etc/x" inode=7 dev=08:01 mode=0%o ouid=0 ogid=0 rdev=00:00 nametype=NORMAL`, mode)}}
			msgs := mkMsgs(specs, 1490137971, 11, 7)
			trace++
			rec := map[string]interface{}{"k": "mode", "trace": trace, "mode": mode, "file_mode": []int{}, "objtype": "", "ret": "err"}
			func() {
				defer func() {
					if p := recover(); p != nil {
						rec["ret"] = "panic"
					}
				}()
				ev, err := aucoalesce.CoalesceMessages(msgs)
				if err == nil && ev != nil && ev.File != nil {
					rec["ret"], rec["file_mode"], rec["objtype"] = "event", bytesOfS(ev.File.Mode), ev.Summary.Object.Type
				}
			}()
			w.write(rec)
			stats["modes"]++
		}
	}
	w.close()
	printJSON(map[string]interface{}{"stats": stats})
	return 0
}

// ---- C15: isolation ---------------------------------------------------------------------------------------

func msgDigest(msgs []*auparse.AuditMessage) string {
	h := sha1.New()
	for _, m := range msgs {
		d, derr := m.Data()
		t, terr := m.Tags()
		ms := m.ToMapStr()
		b, _ := json.Marshal([]interface{}{d, fmt.Sprint(derr), t, fmt.Sprint(terr), ms})
		h.Write(b)
	}
	return hex.EncodeToString(h.Sum(nil))[:16]
}

func eventDigest(ev *aucoalesce.Event) string {
	if ev == nil {
		return "nil"
	}
	b, _ := json.Marshal(ev)
	ws := []string{}
	for _, w := range ev.Warnings {
		ws = append(ws, w.Error())
	}
	sort.Strings(ws)
	wb, _ := json.Marshal(ws)
	s := sha1.Sum(append(b, wb...))
	return hex.EncodeToString(s[:])[:16]
}

type isoOp struct {
	Op    string `json:"op"`
	Group int    `json:"group"`
	Event int    `json:"event"`
}

func loadGoldenGroups(repo string) [][]recSpec {
	// message groups of the repository's golden inputs: consecutive log lines that share a sequence number
	var groups [][]recSpec
	files, _ := filepath.Glob(filepath.Join(repo, "testdata", "*.log"))
	more, _ := filepath.Glob(filepath.Join(repo, "auparse", "testdata", "*.log"))
	for _, f := range append(files, more...) {
		data, err := os.ReadFile(f)
		if err != nil {
			continue
		}
		var cur []recSpec
		curSeq := uint32(0)
		for _, l := range strings.Split(string(data), "\n") {
			m, err := auparse.ParseLogLine(l)
			if err != nil {
				continue
			}
			i := strings.Index(m.RawData, "): ")
			body := ""
			if i >= 0 {
				body = m.RawData[i+3:]
			}
			if len(cur) > 0 && m.Sequence != curSeq {
				groups = append(groups, cur)
				cur = nil
			}
			curSeq = m.Sequence
			cur = append(cur, recSpec{int(m.RecordType), body})
		}
		if len(cur) > 0 {
			groups = append(groups, cur)
		}
	}
	return groups
}

func coalesceIsoCmd(args []string) int {
	fs := flag.NewFlagSet("coalesce-iso", flag.ExitOnError)
	behs := fs.String("behaviours", "", "operation sequences from TLC (ndjson of [{op,group,event}])")
	out := fs.String("out", "", "trace ndjson")
	seed := fs.Int64("seed", 1, "seed")
	pools := fs.Int("pools", 200, "random pools")
	repo := fs.String("repo", "/repo", "repository root")
	stress := fs.Int("stress", 0, "concurrent stress rounds (race build)")
	onlyStress := fs.Bool("only-stress", false, "run only the concurrent rounds (own process: the Go runtime ends the process when it sees concurrent map access)")
	fs.Parse(args)
	rng := newRand(*seed, 15)
	golden := loadGoldenGroups(*repo)
	w := newNDWriter(*out)
	w.write(map[string]interface{}{"k": "meta", "family": "coalesce"})
	stats := map[string]int{"golden_groups": len(golden)}
	// a user database with alias names (two names, one uid), behind the caches' injectable lookups: the
	// name -> id path is taken for events that name an account, and what it learns must not leak into others
	uByID := map[string]string{"0": "root", "1000": "alice", "1001": "bob"}
	uByName := map[string]string{"root": "0", "toor": "0", "alice": "1000", "al": "1000", "bob": "1001"}
	gByID := map[string]string{"0": "root", "1000": "staff", "1001": "bob"}
	gByName := map[string]string{"root": "0", "wheel": "0", "staff": "1000", "users": "1000", "bob": "1001"}
	users := aucoalesce.VerifNewEntityCache(time.Hour, func(k string) string { return uByID[k] }, func(k string) string { return uByName[k] })
	groups := aucoalesce.VerifNewEntityCache(time.Hour, func(k string) string { return gByID[k] }, func(k string) string { return gByName[k] })
	trace := 0

	pickGroup := func() []recSpec {
		switch rng.Intn(5) {
		case 0:
			if len(golden) > 0 {
				return golden[rng.Intn(len(golden))]
			}
		case 1: // arbitrary text
			n := 1 + rng.Intn(3)
			var g []recSpec
			for i := 0; i < n; i++ {
				b := make([]byte, rng.Intn(80))
				rng.Read(b)
				g = append(g, recSpec{[]int{1300, 1302, 1309, 1306, 1400, 1100}[rng.Intn(6)], string(b)})
			}
			return g
		}
		g, _ := randomGroup(rng)
		// records that fail to parse when their Data is asked for (a SYSCALL record without arch or
		// syscall, or with junk in them; a cut or emptied body), next to healthy records
		if rng.Intn(5) == 0 && len(g) > 0 {
			g = append([]recSpec(nil), g...)
			for n := 1 + rng.Intn(2); n > 0; n-- {
				i := rng.Intn(len(g))
				for j := range g { // the SYSCALL record more often than the others
					if g[j].typ == 1300 && rng.Intn(2) == 0 {
						i = j
					}
				}
				g[i].body = damageBody(rng, g[i].body)
			}
		}
		// all message groups are in C15's domain, also odd ones: an EOE record that is not
		// last (or several), a record given twice
		if rng.Intn(4) == 0 && len(g) > 0 {
			for n := 1 + rng.Intn(2); n > 0; n-- {
				i := rng.Intn(len(g) + 1)
				g = append(g[:i], append([]recSpec{{1320, ""}}, g[i:]...)...)
			}
		}
		if rng.Intn(8) == 0 && len(g) > 1 {
			g = append(g, g[rng.Intn(len(g))])
		}
		return g
	}

	runPool := func(ngroups int, ops []isoOp) {
		trace++
		w.write(map[string]interface{}{"k": "reset", "trace": trace})
		pool := make([][]*auparse.AuditMessage, ngroups+1)
		specs := make([][]recSpec, ngroups+1)
		for g := 1; g <= ngroups; g++ {
			specs[g] = pickGroup()
			pool[g] = mkMsgs(specs[g], 1490137971, 11, uint32(100+g))
		}
		var events []*aucoalesce.Event
		for _, op := range ops {
			ret := "event"
			func() {
				defer func() {
					if p := recover(); p != nil {
						ret = "panic"
					}
				}()
				switch op.Op {
				case "coalesce":
					if rng.Intn(3) == 0 {
						// the same records parsed afresh: what they report, and what they coalesce to, does not depend on
						// what was parsed or coalesced in between (records that fail to parse included)
						pool[op.Group] = mkMsgs(specs[op.Group], 1490137971, 11, uint32(100+op.Group))
					}
					ev, err := aucoalesce.CoalesceMessages(pool[op.Group])
					if err != nil || ev == nil {
						ret = "err"
					}
					events = append(events, ev) // nil events keep the numbering aligned
				case "resolve":
					if op.Event >= 1 && op.Event <= len(events) && events[op.Event-1] != nil {
						aucoalesce.ResolveIDsFromCaches(events[op.Event-1], users, groups)
					}
				case "inspect":
					for g := 1; g <= ngroups; g++ {
						for _, m := range pool[g] {
							m.Data()
							m.Tags()
							m.ToMapStr()
						}
					}
				}
			}()
			md := map[string]string{}
			for g := 1; g <= ngroups; g++ {
				md[strconv.Itoa(g)] = msgDigest(pool[g])
			}
			ed := []string{}
			for _, e := range events {
				ed = append(ed, eventDigest(e))
			}
			evIdx := op.Event
			if op.Op == "coalesce" {
				evIdx = len(events)
			}
			w.write(map[string]interface{}{"k": "iso", "trace": trace, "op": op.Op, "group": op.Group, "event": evIdx, "ret": ret,
				"msgs": md, "events": ed})
			stats["operations"]++
		}
		stats["pools"]++
	}

	// every record type the normalisation table names, as a single record and ahead of SYSCALL
	// records of different syscalls: events built from normalisations that share table entries
	normTypes := []string{}
	if data, err := os.ReadFile(filepath.Join(*repo, "aucoalesce", "normalizations.yaml")); err == nil {
		var doc struct {
			Normalizations []map[string]interface{} `yaml:"normalizations"`
		}
		if yaml.Unmarshal(data, &doc) == nil {
			for _, n := range doc.Normalizations {
				switch v := n["record_types"].(type) {
				case string:
					normTypes = append(normTypes, v)
				case []interface{}:
					for _, e := range v {
						normTypes = append(normTypes, fmt.Sprint(e))
					}
				}
			}
		}
	}
	sweepSyscalls := []string{"open", "execve", "connect", "kill", "setuid", "mount", "nosuch"}
	if *onlyStress {
		normTypes, *behs, *pools = nil, "", 0
	}
	for _, tn := range normTypes {
		t, err := auparse.GetAuditMessageType(tn)
		if err != nil {
			continue
		}
		body := fmt.Sprintf(`pid=%d uid=0 auid=1000 ses=3 subj=u:r:t:s0 msg='op=x id=5 acct="bob" exe="/usr/sbin/useradd" hostname=h addr=10.0.0.1 terminal=pts/0 res=success'`, 100+rng.Intn(900))
		trace++
		w.write(map[string]interface{}{"k": "reset", "trace": trace})
		var pool [][]*auparse.AuditMessage
		pool = append(pool, mkMsgs([]recSpec{{int(t), body}}, 1490137971, 11, 500))
		for i := 0; i < 3; i++ {
			sc := sweepSyscalls[rng.Intn(len(sweepSyscalls))]
			pool = append(pool, mkMsgs([]recSpec{{int(t), body}, {1300, syscallBody(rng, sc, 0)}}, 1490137971, 11, uint32(501+i)))
		}
		var events []*aucoalesce.Event
		order := []int{0, 1, 2, 3, 1, 0, 2}
		for step, g := range order {
			ret := "event"
			func() {
				defer func() {
					if p := recover(); p != nil {
						ret = "panic"
					}
				}()
				ev, err := aucoalesce.CoalesceMessages(pool[g])
				if err != nil || ev == nil {
					ret = "err"
				}
				events = append(events, ev)
				if step == 4 && ev != nil {
					aucoalesce.ResolveIDsFromCaches(ev, users, groups)
				}
			}()
			md := map[string]string{}
			for gi := range pool {
				md[strconv.Itoa(gi+1)] = msgDigest(pool[gi])
			}
			ed := []string{}
			for _, e := range events {
				ed = append(ed, eventDigest(e))
			}
			op := "coalesce"
			if step == 4 {
				op = "coalesce" // the event is resolved right away; it is new, so nothing older may change
			}
			w.write(map[string]interface{}{"k": "iso", "trace": trace, "op": op, "group": g + 1 + 100*boolInt(step == 4), "event": len(events), "ret": ret,
				"msgs": md, "events": ed})
			stats["operations"]++
		}
		stats["table_sweep_pools"]++
	}

	if *behs != "" {
		readND(*behs, func(line []byte) {
			var ops []isoOp
			if err := json.Unmarshal(line, &ops); err != nil {
				fatal("bad behaviour: %v", err)
			}
			ng := 0
			for _, o := range ops {
				if o.Group > ng {
					ng = o.Group
				}
			}
			if ng == 0 {
				ng = 1
			}
			runPool(ng, ops)
		})
	}
	for i := 0; i < *pools; i++ {
		ng := 1 + rng.Intn(4)
		var ops []isoOp
		nev := 0
		for j := 0; j < 4+rng.Intn(12); j++ {
			switch x := rng.Intn(10); {
			case x < 5 || nev == 0:
				ops = append(ops, isoOp{Op: "coalesce", Group: 1 + rng.Intn(ng)})
				nev++
			case x < 8:
				ops = append(ops, isoOp{Op: "resolve", Event: 1 + rng.Intn(nev)})
			default:
				ops = append(ops, isoOp{Op: "inspect"})
			}
		}
		runPool(ng, ops)
	}

	// different events that mention the same ids, resolved at the same time against caches whose backing
	// lookups take a while (an NSS or LDAP source): written down as the resolutions one after the other, and
	// followed by the same messages coalesced again and resolved alone - the outcome must not depend on what
	// else was being resolved
	for round := 0; round < 10 && !*onlyStress; round++ {
		slow := func(m map[string]string) func(string) string {
			return func(k string) string { time.Sleep(2 * time.Millisecond); return m[k] }
		}
		cu := aucoalesce.VerifNewEntityCache(time.Hour, slow(uByID), slow(uByName))
		cg := aucoalesce.VerifNewEntityCache(time.Hour, slow(gByID), slow(gByName))
		su := aucoalesce.VerifNewEntityCache(time.Hour, func(k string) string { return uByID[k] }, func(k string) string { return uByName[k] })
		sg := aucoalesce.VerifNewEntityCache(time.Hour, func(k string) string { return gByID[k] }, func(k string) string { return gByName[k] })
		k := 2 + rng.Intn(4)
		trace++
		w.write(map[string]interface{}{"k": "reset", "trace": trace})
		pool := make([][]*auparse.AuditMessage, k)
		shared, _ := randomGroup(rng)
		for g := range pool {
			specs := shared
			if g > 1 && rng.Intn(3) == 0 {
				specs, _ = randomGroup(rng)
			}
			pool[g] = mkMsgs(specs, 1490137971, 11, uint32(900+g))
		}
		var events []*aucoalesce.Event
		digests := func() []string {
			ed := []string{}
			for _, e := range events {
				ed = append(ed, eventDigest(e))
			}
			return ed
		}
		record := func(op string, group, event int, ret string, ed []string) {
			md := map[string]string{}
			for gi := range pool {
				md[strconv.Itoa(gi+1)] = msgDigest(pool[gi])
			}
			w.write(map[string]interface{}{"k": "iso", "trace": trace, "op": op, "group": group, "event": event, "ret": ret, "msgs": md, "events": ed})
			stats["operations"]++
		}
		coalesce := func(g int) {
			ret := "event"
			func() {
				defer func() {
					if p := recover(); p != nil {
						ret = "panic"
					}
				}()
				ev, err := aucoalesce.CoalesceMessages(pool[g])
				if err != nil || ev == nil {
					ret = "err"
				}
				events = append(events, ev)
			}()
			if len(events) <= g { // panicked before the append
				events = append(events, nil)
			}
			record("coalesce", g+1, len(events), ret, digests())
		}
		for g := range pool {
			coalesce(g)
		}
		pre := digests()
		rets := make([]string, k)
		var wg sync.WaitGroup
		for i := 0; i < k; i++ {
			wg.Add(1)
			go func(i int) {
				defer wg.Done()
				rets[i] = "event"
				defer func() {
					if p := recover(); p != nil {
						rets[i] = "panic"
					}
				}()
				if events[i] != nil {
					aucoalesce.ResolveIDsFromCaches(events[i], cu, cg)
				}
			}(i)
		}
		wg.Wait()
		post := digests()
		for i := 0; i < k; i++ {
			ed := append(append([]string{}, post[:i+1]...), pre[i+1:]...)
			record("resolve", 0, i+1, rets[i], ed)
		}
		for g := range pool {
			coalesce(g)
		}
		for g := range pool {
			ret := "event"
			func() {
				defer func() {
					if p := recover(); p != nil {
						ret = "panic"
					}
				}()
				if events[k+g] != nil {
					aucoalesce.ResolveIDsFromCaches(events[k+g], su, sg)
				}
			}()
			record("resolve", 0, k+g+1, ret, digests())
		}
		stats["concurrent_resolution_pools"]++
	}

	// concurrent coalescing / resolving of different events (meaningful in the race build)
	// entries that expire at once take the caches' refresh path on every hit
	shortUsers, shortGroups := aucoalesce.NewUserCache(time.Nanosecond), aucoalesce.NewGroupCache(time.Nanosecond)
	for round := 0; round < *stress; round++ {
		users, groups := users, groups
		if round%2 == 1 {
			users, groups = shortUsers, shortGroups
		}
		var wg sync.WaitGroup
		for g := 0; g < 8; g++ {
			wg.Add(1)
			prng := rand.New(rand.NewSource(rng.Int63()))
			go func(prng *rand.Rand) {
				defer wg.Done()
				for i := 0; i < 40; i++ {
					specs, _ := randomGroup(prng)
					msgs := mkMsgs(specs, 1490137971, 11, prng.Uint32())
					func() {
						defer func() { recover() }()
						ev, err := aucoalesce.CoalesceMessages(msgs)
						if err == nil && ev != nil {
							aucoalesce.ResolveIDsFromCaches(ev, users, groups)
							json.Marshal(ev)
						}
					}()
				}
			}(prng)
		}
		wg.Wait()
		stats["stress_rounds"]++
	}
	w.close()
	printJSON(map[string]interface{}{"stats": stats})
	return 0
}

// damageBody makes a record body that the parser accepts as a message but whose fields fail to parse.
func damageBody(r *rand.Rand, body string) string {
	switch r.Intn(8) {
	case 0:
		return strings.Replace(body, "arch=c000003e", "arch=zz", 1)
	case 1:
		return strings.Replace(body, "arch=c000003e ", "", 1)
	case 2:
		return regexpSyscall.ReplaceAllString(body, "syscall=abc")
	case 3:
		return regexpSyscall.ReplaceAllString(body, "")
	case 4:
		return ""
	case 5:
		return " "
	case 6:
		if len(body) > 0 {
			return body[:r.Intn(len(body))]
		}
		return body
	default:
		return strings.Replace(strings.Replace(body, "argc=", "argc=x", 1), "saddr=", "saddr=Z", 1)
	}
}

var regexpSyscall = regexp.MustCompile(`syscall=\d+ ?`)

func boolInt(b bool) int {
	if b {
		return 1
	}
	return 0
}

func init() {
	register("coalesce-events", coalesceEventsCmd)
	register("coalesce-iso", coalesceIsoCmd)
}
