package main

import (
	"flag"
	"math/rand"
	"strconv"
	"sync"
	"time"

	"github.com/elastic/go-libaudit/v2/aucoalesce"
)

// cache-run: the id/name cache behind ResolveIDs as a timed machine (extras, "CACHE").
func cacheRunCmd(args []string) int {
	fs := flag.NewFlagSet("cache-run", flag.ExitOnError)
	out := fs.String("out", "", "trace ndjson")
	seed := fs.Int64("seed", 1, "seed")
	n := fs.Int("n", 100, "traces")
	length := fs.Int("len", 40, "operations per trace")
	conc := fs.Int("conc", 40, "rounds of lookups from several goroutines")
	fs.Parse(args)
	rng := newRand(*seed, 23)
	w := newNDWriter(*out)
	w.write(map[string]interface{}{"k": "meta", "family": "cache"})
	stats := map[string]int{}
	for trace := 1; trace <= *n; trace++ {
		expUs := []int{3000, 8000, 20000, 3600 * 1000000, 0, -1000000}[rng.Intn(6)]
		inf := expUs > 1000000000
		store := map[string]string{}
		called, said := false, ""
		byID := func(k string) string {
			called, said = true, store[k]
			return store[k]
		}
		c := aucoalesce.VerifNewEntityCache(time.Duration(expUs)*time.Microsecond, byID, func(k string) string { return "" })
		logged := expUs
		if inf {
			logged = 0 // no integer >= 2^31 enters a trace (TLC's Json module wraps them)
		}
		w.write(map[string]interface{}{"k": "reset", "trace": trace, "expiration": logged, "never": inf})
		start := time.Now()
		keys := []string{"0", "7", "8", "1000", "4294967295", "", "unset", "x"}
		names := []string{"alice", "bob", "carol", ""}
		for i := 0; i < *length; i++ {
			key := keys[rng.Intn(len(keys))]
			switch x := rng.Intn(100); {
			case x < 60:
				called, said = false, ""
				t0 := int(time.Since(start) / time.Microsecond)
				ret := c.LookupID(key)
				t1 := int(time.Since(start)/time.Microsecond) + 1
				w.write(map[string]interface{}{"k": "cache", "op": "lookup", "key": key, "ret": ret, "called": called, "store_said": said, "t0": t0, "t1": t1})
				stats["lookups"]++
				if called {
					stats["store_consulted"]++
				}
			case x < 68:
				if key == "" || key == "unset" {
					continue
				}
				v := names[rng.Intn(3)]
				c.VerifHardcode(key, v)
				w.write(map[string]interface{}{"k": "cache", "op": "hardcode", "key": key, "ret": v, "called": false, "store_said": "", "t0": 0, "t1": 0})
			case x < 85:
				store[key] = names[rng.Intn(len(names))]
			default:
				if !inf && expUs > 0 {
					time.Sleep(time.Duration(500+rng.Intn(expUs*3/2)) * time.Microsecond)
				} else {
					time.Sleep(time.Duration(100+rng.Intn(500)) * time.Microsecond)
				}
			}
		}
		stats["traces"]++
	}
	// lookups of several goroutines at once (IdCacheConc.tla): entries that do not expire, a store that does not
	// change and takes its time; every completed lookup is written down with what it returned, whether it was
	// the one that consulted the store, and what the store holds
	for round := 0; round < *conc; round++ {
		trace := *n + 1 + round
		store := map[string]string{"0": "root", "7": "alice", "8": "", "1000": "bob", "x": "carol"}
		var mu sync.Mutex
		consulting := map[int64]bool{}
		delay := time.Duration(100+rng.Intn(1500)) * time.Microsecond
		byID := func(k string) string {
			mu.Lock()
			consulting[goid()] = true
			mu.Unlock()
			time.Sleep(delay)
			return store[k]
		}
		c := aucoalesce.VerifNewEntityCache(time.Hour, byID, func(k string) string { return "" })
		w.write(map[string]interface{}{"k": "reset", "trace": trace, "expiration": 0, "never": true})
		keys := []string{"0", "7", "8", "1000", "x", "", "unset", "4294967295"}
		nkeys := 1 + rng.Intn(len(keys))
		type done struct {
			key, ret string
			called   bool
		}
		var recs []done
		var wg sync.WaitGroup
		start := make(chan struct{})
		for g := 2 + rng.Intn(5); g > 0; g-- {
			wg.Add(1)
			prng := rand.New(rand.NewSource(rng.Int63()))
			go func() {
				defer wg.Done()
				me := goid()
				<-start
				for i := 3 + prng.Intn(6); i > 0; i-- {
					key := keys[prng.Intn(nkeys)]
					mu.Lock()
					consulting[me] = false
					mu.Unlock()
					ret := c.LookupID(key)
					mu.Lock()
					recs = append(recs, done{key, ret, consulting[me]})
					mu.Unlock()
				}
			}()
		}
		close(start)
		wg.Wait()
		for _, d := range recs {
			w.write(map[string]interface{}{"k": "cache", "op": "clookup", "key": d.key, "ret": d.ret, "called": d.called, "store_said": store[d.key], "t0": 0, "t1": 0})
			stats["concurrent_lookups"]++
			if d.called {
				stats["concurrent_store_consulted"]++
			}
		}
		stats["concurrent_rounds"]++
	}
	w.close()
	printJSON(map[string]interface{}{"stats": stats})
	_ = strconv.Itoa
	return 0
}

func init() { register("cache-run", cacheRunCmd) }
