package main

import (
	"regexp"
	"flag"
	"fmt"
	"os"
	"path/filepath"
	"sort"
	"strings"

	"gopkg.in/yaml.v3"

	"github.com/elastic/go-libaudit/v2/aucoalesce"
	"github.com/elastic/go-libaudit/v2/auparse"
	"github.com/elastic/go-libaudit/v2/rule"
	"github.com/elastic/go-libaudit/v2/rule/flags"
)

func wireWord(w []byte, word int) uint32 {
	o := 4 * (word - 1)
	return uint32(w[o]) | uint32(w[o+1])<<8 | uint32(w[o+2])<<16 | uint32(w[o+3])<<24
}

// tables-dump: one record per entry of every table C20 talks about.
func tablesDumpCmd(args []string) int {
	fs := flag.NewFlagSet("tables-dump", flag.ExitOnError)
	out := fs.String("out", "", "trace ndjson")
	repo := fs.String("repo", "/repo", "repository root (for normalizations.yaml)")
	fs.Parse(args)
	w := newNDWriter(*out)
	w.write(map[string]interface{}{"k": "meta", "family": "tables"})
	stats := map[string]int{}
	trace := 0

	// ---- record types: all 65536 codes; categorisation in three visiting orders ---------------
	cats := make([][3]string, 65536)
	for c := 0; c < 65536; c++ {
		cats[c][0] = aucoalesce.GetAuditEventType(auparse.AuditMessageType(c)).String()
	}
	for i := 0; i < 65536; i++ {
		c := (i * 4099) % 65536 // 4099 is prime: a permutation with stride just over 4096
		cats[c][1] = aucoalesce.GetAuditEventType(auparse.AuditMessageType(c)).String()
	}
	rng := newRand(1, 20)
	for _, c := range rng.Perm(65536) {
		cats[c][2] = aucoalesce.GetAuditEventType(auparse.AuditMessageType(c)).String()
	}
	for c := 0; c < 65536; c++ {
		t := auparse.AuditMessageType(c)
		name := t.String()
		back, tback := -1, -1
		if b, err := auparse.GetAuditMessageType(name); err == nil {
			back = int(b)
		}
		if txt, err := t.MarshalText(); err == nil {
			var t2 auparse.AuditMessageType
			if err := t2.UnmarshalText(txt); err == nil {
				tback = int(t2)
			}
		}
		trace++
		w.write(map[string]interface{}{"k": "type", "trace": trace, "code": c, "name": name, "back": back, "text_back": tback,
			"known": !strings.HasPrefix(name, "UNKNOWN["), "cats": []string{cats[c][0], cats[c][1], cats[c][2]}})
		stats["record_types"]++
	}

	// ---- errno ----------------------------------------------------------------------------------
	for name, num := range auparse.AuditErrnoToNum {
		trace++
		w.write(map[string]interface{}{"k": "errno_fwd", "trace": trace, "name": name, "num": num})
		stats["errno_names"]++
	}
	for num, name := range auparse.AuditErrnoToName {
		trace++
		w.write(map[string]interface{}{"k": "errno_rev", "trace": trace, "num": num, "name": name})
		stats["errno_numbers"]++
	}

	// ---- architectures ----------------------------------------------------------------------------
	for code, name := range auparse.AuditArchNames {
		trace++
		rec := map[string]interface{}{"k": "arch", "trace": trace, "code": limbs(uint32(code)), "name": name,
			"rule_ok": false, "rule_code": limbs(0), "rule_back_ok": false, "rule_back": ""}
		o := parseAndBuild("-a always,exit -F arch=" + name)
		if o.ret == "ok" && len(o.wire) >= 1040 {
			rec["rule_ok"] = true
			rec["rule_code"] = limbs(wireWord(o.wire, 132))
			if text, r := toCmd(o.wire); r == "ok" {
				rec["rule_back_ok"] = true
				for _, f := range strings.Fields(text) {
					if strings.HasPrefix(f, "arch=") {
						rec["rule_back"] = f[5:]
					}
				}
			}
		}
		w.write(rec)
		stats["arches"]++
	}

	// ---- syscall tables --------------------------------------------------------------------------------
	arches := []string{}
	for a := range auparse.AuditSyscalls {
		arches = append(arches, a)
	}
	sort.Strings(arches)
	scSnapshot := map[string]map[int]string{}
	for _, a := range arches {
		scSnapshot[a] = map[int]string{}
		for num, name := range auparse.AuditSyscalls[a] {
			trace++
			w.write(map[string]interface{}{"k": "syscall", "trace": trace, "arch": a, "num": num, "name": name})
			stats["syscall_entries"]++
			scSnapshot[a][num] = name
		}
	}

	// ---- record types from the name side: every name the library's own name table lists ------------------------
	// (keys of the auditMessageNameToType literal, read from the source file when it is written as one)
	if src, err := os.ReadFile(filepath.Join(*repo, "auparse", "zaudit_msg_types.go")); err == nil {
		text := string(src)
		if i := strings.Index(text, "auditMessageNameToType = map[string]AuditMessageType{"); i >= 0 {
			block := text[i:]
			if j := strings.Index(block, "\n}"); j >= 0 {
				block = block[:j]
			}
			for _, m := range regexp.MustCompile(`(?m)^\s*"([^"]+)":\s*AUDIT_`).FindAllStringSubmatch(block, -1) {
				name := m[1]
				code, again, againCode := -1, "", -1
				if t, err := auparse.GetAuditMessageType(name); err == nil {
					code = int(t)
					again = t.String()
					if t2, err := auparse.GetAuditMessageType(again); err == nil {
						againCode = int(t2)
					}
				}
				trace++
				w.write(map[string]interface{}{"k": "typename", "trace": trace, "name": name, "code": code, "again": again, "again_code": againCode,
					"again_is_unknown_form": strings.HasPrefix(again, "UNKNOWN[")})
				stats["type_names"]++
			}
		}
	}

	// ---- rule tables, seen through Build -> ToCommandLine ---------------------------------------------------
	// An entry survives when the rule built from it lists as text that names the same field and operator
	// (read back with flags.Parse - how the value is spelt is the printer's business) and that text builds
	// the same bytes again.
	reads := func(text, field, op, other string) bool {
		r, err := flags.Parse(text)
		if err != nil {
			return false
		}
		sr, ok := r.(*rule.SyscallRule)
		if !ok {
			return false
		}
		if field == "key" {
			for _, k := range sr.Keys {
				if k == other {
					return true
				}
			}
		}
		for _, f := range sr.Filters {
			if f.Comparator != op {
				continue
			}
			if other != "" && f.Type == rule.InterFieldFilterType && ((f.LHS == field && f.RHS == other) || (f.LHS == other && f.RHS == field)) {
				return true
			}
			if f.Type == rule.ValueFilterType && f.LHS == field {
				return true
			}
		}
		return false
	}
	rt := func(what, line, field, op, other string) {
		trace++
		ok := false
		o := parseAndBuild(line)
		if o.ret == "ok" {
			if text, r := toCmd(o.wire); r == "ok" && reads(text, field, op, other) {
				if o2 := parseAndBuild(text); o2.ret == "ok" && string(o2.wire) == string(o.wire) {
					ok = true
				}
			}
		}
		w.write(map[string]interface{}{"k": "roundtrip", "trace": trace, "what": what, "line": line, "ok": ok})
		stats["rule_table_entries"]++
	}
	numFields := []string{"pid", "ppid", "pers", "a0", "a1", "a2", "a3", "devmajor", "devminor", "inode", "success", "uid", "euid", "suid",
		"fsuid", "auid", "obj_uid", "gid", "egid", "sgid", "fsgid", "obj_gid", "exit"}
	for _, f := range numFields {
		rt("field "+f, "-a always,exit -F "+f+"=7", f, "=", "")
	}
	for _, f := range []string{"subj_user", "subj_role", "subj_type", "subj_sen", "subj_clr", "obj_user", "obj_role", "obj_type",
		"obj_lev_low", "obj_lev_high", "exe", "key"} {
		rt("field "+f, "-a always,exit -F "+f+"=abc", f, "=", map[bool]string{true: "abc", false: ""}[f == "key"])
	}
	rt("field saddr_fam", "-a always,exit -F saddr_fam=2", "saddr_fam", "=", "")
	rt("field msgtype", "-a always,user -F msgtype=1100", "msgtype", "=", "")
	rt("field filetype", "-a always,exit -F pid=1 -F filetype=fifo", "filetype", "=", "")
	rt("field perm", "-a always,exit -F pid=1 -F perm=wa", "perm", "=", "")
	for _, op := range []string{"=", "!=", "<", ">", "<=", ">=", "&", "&="} {
		rt("operator "+op, "-a always,exit -F 'a1"+op+"5'", "a1", op, "")
	}
	uidf := []string{"uid", "euid", "suid", "fsuid", "auid", "obj_uid"}
	gidf := []string{"gid", "egid", "sgid", "fsgid", "obj_gid"}
	for _, set := range [][]string{uidf, gidf} {
		for i, a := range set {
			for j, b := range set {
				if i == j {
					continue
				}
				line := "-a always,exit -C " + a + "!=" + b
				if o := parseAndBuild(line); o.ret != "ok" {
					continue // not every pair is a kernel comparison
				}
				rt("comparison "+a+","+b, line, a, "!=", b)
			}
		}
	}

	// the other direction: every field number the printer has a name for, in a rule as the kernel would list
	// it (a numeric and a string-valued rule with the field word replaced), reads back as that number
	for _, baseLine := range []string{"-a always,exit -F pid=7", "-a always,user -F pid=7", "-a always,exit -F subj_user=abc", "-a always,exit -F pid=7 -F pid=1"} {
		base := parseAndBuild(baseLine)
		if base.ret != "ok" {
			fatal("base rule does not build: %s", baseLine)
		}
		for n := 0; n < 256; n++ {
			m := append([]byte(nil), base.wire...)
			m[268] = byte(n) // fields[0]; the operator lives in fieldflags
			text, r := toCmd(m)
			if r != "ok" {
				continue
			}
			o2 := parseAndBuild(text)
			ok := true // a name that this list or value does not admit is not rebuilt: nothing to compare
			if o2.ret == "ok" && len(o2.wire) >= 272 {
				got := int(o2.wire[268]) | int(o2.wire[269])<<8 | int(o2.wire[270])<<16 | int(o2.wire[271])<<24
				ok = got == n
			}
			trace++
			w.write(map[string]interface{}{"k": "roundtrip", "trace": trace, "what": fmt.Sprintf("field number %d (printed as %q)", n, text), "line": baseLine, "ok": ok})
			stats["rule_field_numbers"]++
		}
	}

	// ---- the normalisation file -------------------------------------------------------------------------------
	yp := filepath.Join(*repo, "aucoalesce", "normalizations.yaml")
	data, err := os.ReadFile(yp)
	if err != nil {
		fatal("cannot read %s: %v", yp, err)
	}
	_, _, lerr := aucoalesce.LoadNormalizationConfig(data)
	trace++
	w.write(map[string]interface{}{"k": "norm_load", "trace": trace, "ok": lerr == nil, "err": fmt.Sprint(lerr)})
	var doc struct {
		Normalizations []map[string]interface{} `yaml:"normalizations"`
	}
	if err := yaml.Unmarshal(data, &doc); err != nil {
		fatal("yaml: %v", err)
	}
	strs := func(v interface{}) []string {
		switch x := v.(type) {
		case string:
			return []string{x}
		case []interface{}:
			out := []string{}
			for _, e := range x {
				out = append(out, fmt.Sprint(e))
			}
			return out
		}
		return []string{}
	}
	for i, n := range doc.Normalizations {
		trace++
		w.write(map[string]interface{}{"k": "norm", "trace": trace, "idx": i, "record_types": strs(n["record_types"]),
			"syscalls": strs(n["syscalls"]), "has_fields": len(strs(n["has_fields"])), "action": fmt.Sprint(n["action"])})
		stats["normalizations"]++
	}
	// ---- selection, dynamically: every entry's events in several orders -----------------------------------------
	// An event is built so that exactly one entry of the table applies to it (its record type or syscall, all of
	// that entry's has_fields and no has_fields of a rival entry).  The whole list is coalesced forwards, backwards
	// and shuffled: what an event selects must be the table's entry every time.
	type selCase struct {
		what, want string
		specs      []recSpec
	}
	var sel []selCase
	rivals := map[string][]int{} // record type -> entries naming it
	for i, n := range doc.Normalizations {
		for _, rt := range strs(n["record_types"]) {
			rivals[rt] = append(rivals[rt], i)
		}
	}
	srng := newRand(1, 20)
	for i, n := range doc.Normalizations {
		action := ""
		if n["action"] != nil {
			action = fmt.Sprint(n["action"])
		}
		for _, rt := range strs(n["record_types"]) {
			t, err := auparse.GetAuditMessageType(rt)
			if err != nil {
				continue
			}
			mine := strs(n["has_fields"])
			clash := false
			for _, j := range rivals[rt] {
				if j == i {
					continue
				}
				theirs := strs(doc.Normalizations[j]["has_fields"])
				// a rival without has_fields, or whose has_fields are all among mine, applies as well: no unique answer
				sub := true
				for _, f := range theirs {
					found := false
					for _, g := range mine {
						found = found || f == g
					}
					sub = sub && found
				}
				clash = clash || sub
			}
			if clash {
				continue
			}
			body := "pid=1 uid=0 auid=1000 ses=1 msg='op=x"
			for _, f := range mine {
				body += " " + f + "=zz"
			}
			body += " res=success'"
			sel = append(sel, selCase{rt + "/" + strings.Join(mine, "+"), action, []recSpec{{int(t), body}}})
		}
		scs := strs(n["syscalls"])
		for k := 0; k < len(scs) && k < 3; k++ {
			sc := scs[srng.Intn(len(scs))]
			num := -1
			for nr, name := range auparse.AuditSyscalls["x86_64"] {
				if name == sc {
					num = nr
				}
			}
			if num < 0 {
				continue
			}
			sel = append(sel, selCase{"syscall " + sc, action, []recSpec{{1300, fmt.Sprintf(
				`arch=c000003e syscall=%d success=yes exit=0 a0=1 a1=2 a2=3 a3=4 items=0 ppid=1 pid=2 auid=1000 uid=0 gid=0 tty=pts0 ses=1 comm="x" exe="/bin/x" key=(null)`, num)}}})
		}
	}
	orders := [][]int{}
	fwd := make([]int, len(sel))
	for i := range fwd {
		fwd[i] = i
	}
	rev := make([]int, len(sel))
	for i := range rev {
		rev[i] = len(sel) - 1 - i
	}
	orders = append(orders, fwd, rev)
	for k := 0; k < 4; k++ {
		sh := append([]int(nil), fwd...)
		srng.Shuffle(len(sh), func(i, j int) { sh[i], sh[j] = sh[j], sh[i] })
		orders = append(orders, sh)
	}
	for oi, order := range orders {
		for _, ci := range order {
			c := sel[ci]
			msgs := mkMsgs(c.specs, 1490137971, 11, uint32(ci+1))
			if len(msgs) != len(c.specs) {
				continue
			}
			if _, err := msgs[0].Data(); err != nil {
				continue // this record type needs fields of its own to parse
			}
			got := "<error>"
			func() {
				defer func() { recover() }()
				if ev, err := aucoalesce.CoalesceMessages(msgs); err == nil && ev != nil {
					got = ev.Summary.Action
				}
			}()
			trace++
			w.write(map[string]interface{}{"k": "select", "trace": trace, "what": c.what, "order": oi, "want": c.want, "got": got})
			stats["selections"]++
		}
	}
	// ---- the tables after the parser has been at work -----------------------------------------------------
	// records with system call numbers of every kind (in the table, beside it, with the x32 and other high bits
	// set, negative) for every architecture code; whatever the tables hold afterwards that they did not hold
	// before is one more entry for the same clauses
	archHex := []string{"c000003e", "40000003", "c00000b7", "40000028", "80000016", "c0000015", "00000014", "80000015", "ffffffff"}
	for _, ah := range archHex {
		for _, base := range []int{0, 1, 2, 59, 257, 322, 435, 511, 1023} {
			for _, num := range []int{base, base | 0x40000000, base | 0x20000000, -base - 1, base + 0x10000} {
				for _, rt := range []auparse.AuditMessageType{auparse.AUDIT_SYSCALL, auparse.AUDIT_SECCOMP} {
					func() {
						defer func() { recover() }()
						if m, err := auparse.Parse(rt, fmt.Sprintf(`audit(1490137971.011:7): arch=%s syscall=%d success=yes exit=0 sig=0 a0=1 items=0 pid=2 uid=0 comm="x" exe="/bin/x" code=0x0`, ah, num)); err == nil {
							m.Data()
							m.ToMapStr()
						}
					}()
				}
			}
		}
	}
	for a, tbl := range auparse.AuditSyscalls {
		for num, name := range tbl {
			if old, ok := scSnapshot[a][num]; !ok || old != name {
				trace++
				w.write(map[string]interface{}{"k": "syscall", "trace": trace, "arch": a, "num": num, "name": name, "late": true})
				stats["syscall_entries_added_at_run_time"]++
			}
		}
	}
	w.write(map[string]interface{}{"k": "end"})
	w.close()
	printJSON(map[string]interface{}{"stats": stats})
	return 0
}

func init() { register("tables-dump", tablesDumpCmd) }
