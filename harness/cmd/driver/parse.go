package main

import (
	"bufio"
	"bytes"
	"encoding/hex"
	"encoding/json"
	"flag"
	"fmt"
	"math/rand"
	"net"
	"os"
	"os/exec"
	"path/filepath"
	"runtime/debug"
	"sort"
	"strconv"
	"strings"
	"time"

	"github.com/elastic/go-libaudit/v2/auparse"
)

// ---- C04: headers ---------------------------------------------------------------------------

type hdrResult struct {
	OK   bool  `json:"ok"`
	Type int   `json:"type"`
	Sec  []int `json:"sec"`
	Ms   int   `json:"ms"`
	Seq  []int `json:"seq"`
	Raw  []int `json:"raw"`
	Nil  bool  `json:"nil"`
}

func hdrOf(m *auparse.AuditMessage, err error) hdrResult {
	if err != nil || m == nil {
		return hdrResult{Nil: m == nil, Sec: []int{}, Seq: []int{}, Raw: []int{}}
	}
	sec := m.Timestamp.Unix()
	secd := []int{}
	if sec >= 0 {
		secd = digitsU64(uint64(sec))
	}
	return hdrResult{OK: true, Type: int(m.RecordType), Sec: secd, Ms: m.Timestamp.Nanosecond() / 1000000,
		Seq: digitsU64(uint64(m.Sequence)), Raw: bytesOfS(m.RawData)}
}

var uapiMsgTypes = map[string]int{"GET": 1000, "SET": 1001, "USER": 1005, "LOGIN": 1006, "USER_AVC": 1107, "USER_TTY": 1124,
	"SYSCALL": 1300, "PATH": 1302, "IPC": 1303, "SOCKETCALL": 1304, "CONFIG_CHANGE": 1305, "SOCKADDR": 1306, "CWD": 1307,
	"EXECVE": 1309, "EOE": 1320, "SECCOMP": 1326, "PROCTITLE": 1327, "AVC": 1400, "KERNEL": 2000,
	"ANOM_PROMISCUOUS": 1700, "ANOM_ABEND": 1701, "MAC_POLICY_LOAD": 1403, "NETFILTER_CFG": 1325, "TTY": 1319,
	"MMAP": 1323, "BPRM_FCAPS": 1321, "CAPSET": 1322, "FEATURE_CHANGE": 1328, "KERN_MODULE": 1330, "FANOTIFY": 1331}

var hostileBodies = []string{
	"", "a=1", "pid=1 uid=0", "msg=audit(1.002:3): nested", "x=) y=( z=: w=.", "record_type=LOGIN sequence=7 raw_msg=spoofed @timestamp=never",
	"msg='op=login acct=\"root\" res=success'", "type=SYSCALL msg=audit(9.999:9): x", ")))(((:::...", "a=\"b c\" d='e f'",
	"sequence=1 sequence=2", "  leading and trailing  ", "k=v\ttab", "utf8=é日", "arch=c000003e syscall=59 success=yes exit=0",
}

func parseHeaderCmd(args []string) int {
	fs := flag.NewFlagSet("parse-header", flag.ExitOnError)
	out := fs.String("out", "", "trace ndjson")
	seed := fs.Int64("seed", 1, "seed")
	stride := fs.Int("unknown-stride", 8, "write the UNKNOWN[n] form for every n-th code as well")
	extra := fs.Int("random", 5000, "additional random headers")
	fs.Parse(args)
	rng := newRand(*seed, 4)
	w := newNDWriter(*out)
	w.write(map[string]interface{}{"k": "meta", "family": "parse"})
	stats := map[string]int{}
	trace := 0
	secB := []uint64{0, 1, 999999999, 1<<31 - 1, 1 << 31, 1<<31 + 1, 1<<32 - 1, 1 << 32, 1<<32 + 1, 9223372036, 9223372037, 1<<34 - 1}
	seqB := []uint32{0, 1, 9, 10, 65535, 65536, 1<<31 - 1, 1 << 31, 1<<32 - 2, 1<<32 - 1}
	msCounter := 0
	var emit func(code int, name string, sec uint64, ms int, seq uint32)
	one := func(code int, name string) {
		sec := secB[rng.Intn(len(secB))]
		if rng.Intn(2) == 0 {
			sec = uint64(rng.Int63n(1 << 34))
		}
		seq := seqB[rng.Intn(len(seqB))]
		if rng.Intn(2) == 0 {
			seq = rng.Uint32()
		}
		ms := msCounter % 1000
		msCounter++
		emit(code, name, sec, ms, seq)
	}
	emit = func(code int, name string, sec uint64, ms int, seq uint32) {
		trace++
		body := hostileBodies[rng.Intn(len(hostileBodies))]
		line := fmt.Sprintf("type=%s msg=audit(%d.%03d:%d): %s", name, sec, ms, seq, body)
		rec := map[string]interface{}{"k": "header", "trace": trace, "type": code, "name": bytesOfS(name), "sec": digitsU64(sec), "ms": ms,
			"seq": digitsU64(uint64(seq)), "body": bytesOfS(body), "line": bytesOfS(line), "panic": false,
			"libname": bytesOfS(auparse.AuditMessageType(code).String()),
			"ts_want": bytesOfS(time.Unix(int64(sec), int64(ms)*1000000).UTC().String())}
		func() {
			defer func() {
				if p := recover(); p != nil {
					rec["panic"] = true
				}
			}()
			m1, e1 := auparse.ParseLogLine(line)
			rec["pl"] = hdrOf(m1, e1)
			after := line[strings.Index(line, "msg=")+4:]
			m2, e2 := auparse.Parse(auparse.AuditMessageType(code), after)
			rec["p"] = hdrOf(m2, e2)
			mp := map[string]interface{}{"record_type": []int{}, "timestamp": []int{}, "sequence": []int{}, "raw_msg": []int{}}
			if m1 != nil && e1 == nil {
				ms := m1.ToMapStr()
				for _, k := range [][2]string{{"record_type", "record_type"}, {"@timestamp", "timestamp"}, {"sequence", "sequence"}, {"raw_msg", "raw_msg"}} {
					if s, ok := ms[k[0]].(string); ok {
						mp[k[1]] = bytesOfS(s)
					}
				}
			}
			rec["map"] = mp
			// "always": a caller may do what it likes with the map it was handed; a later call still reports the header
			mp2 := map[string]interface{}{"record_type": []int{}, "timestamp": []int{}, "sequence": []int{}, "raw_msg": []int{}}
			if m1 != nil && e1 == nil {
				ms := m1.ToMapStr()
				switch trace % 4 {
				case 0:
					delete(ms, "raw_msg")
					ms["sequence"] = "0"
				case 1:
					ms["record_type"], ms["@timestamp"] = "x", "x"
					delete(ms, "sequence")
				case 2:
					for k := range ms {
						delete(ms, k)
					}
				}
				ms = m1.ToMapStr()
				for _, k := range [][2]string{{"record_type", "record_type"}, {"@timestamp", "timestamp"}, {"sequence", "sequence"}, {"raw_msg", "raw_msg"}} {
					if s, ok := ms[k[0]].(string); ok {
						mp2[k[1]] = bytesOfS(s)
					}
				}
			}
			rec["map2"] = mp2
		}()
		if rec["pl"] == nil {
			empty := func() map[string]interface{} {
				return map[string]interface{}{"record_type": []int{}, "timestamp": []int{}, "sequence": []int{}, "raw_msg": []int{}}
			}
			rec["pl"], rec["p"], rec["map"], rec["map2"] = hdrOf(nil, fmt.Errorf("x")), hdrOf(nil, fmt.Errorf("x")), empty(), empty()
		}
		if rec["map2"] == nil {
			rec["map2"] = rec["map"]
		}
		w.write(rec)
		stats["headers"]++
	}
	for code := 0; code < 65536; code++ {
		lib := auparse.AuditMessageType(code).String()
		one(code, lib)
		unk := fmt.Sprintf("UNKNOWN[%d]", code)
		if lib != unk && (code%*stride == 0 || code < 3000) {
			one(code, unk)
		}
	}
	for name, code := range uapiMsgTypes {
		one(code, name)
		one(code, strings.ToLower(name)) // type names are matched case-insensitively by the library's documentation of UNKNOWN[n]; lower case of a known name is the same type
	}
	for i := 0; i < *extra; i++ {
		code := rng.Intn(65536)
		one(code, auparse.AuditMessageType(code).String())
	}
	// headers parsed one after the other that differ little: the same time stamp with a sequence number that
	// extends, shortens or repeats the previous one; the same sequence number with neighbouring time stamps
	for rep := 0; rep < 40; rep++ {
		sec := uint64(rng.Int63n(1 << 34))
		ms := rng.Intn(1000)
		for _, chain := range [][]uint32{{5040, 50406, 504, 50406, 5}, {1, 17, 171, 1, 17}, {429496729, 4294967295, 42949672, 429496729},
			{0, 0, 1, 10, 100, 10, 1, 0}, {rng.Uint32() / 100000, rng.Uint32() / 1000, rng.Uint32()}} {
			for _, seq := range chain {
				emit(1300, "SYSCALL", sec, ms, seq)
			}
		}
		seq := rng.Uint32()
		for _, d := range []int{0, 1, 0, 10, 100, 0} {
			emit(1300, "SYSCALL", sec+uint64(d/100), (ms+d)%1000, seq)
			emit(1302, "PATH", sec, ms, seq)
		}
	}

	// malformed headers
	bad := func(line, how string, afterMsg bool) {
		trace++
		rec := map[string]interface{}{"k": "badheader", "trace": trace, "line": bytesOfS(line), "how": how, "panic": false,
			"pl_ok": false, "pl_nil": true, "p_ok": false, "p_nil": true}
		func() {
			defer func() {
				if p := recover(); p != nil {
					rec["panic"] = true
				}
			}()
			m1, e1 := auparse.ParseLogLine(line)
			rec["pl_ok"], rec["pl_nil"] = e1 == nil, m1 == nil
			if afterMsg {
				if i := strings.Index(line, "msg="); i >= 0 {
					m2, e2 := auparse.Parse(auparse.AUDIT_SYSCALL, line[i+4:])
					rec["p_ok"], rec["p_nil"] = e2 == nil, m2 == nil
				}
			}
		}()
		w.write(rec)
		stats["malformed"]++
	}
	for rep := 0; rep < 6; rep++ {
		sec := uint64(rng.Int63n(1 << 34))
		ms := rng.Intn(1000)
		seq := rng.Uint32()
		name := []string{"SYSCALL", "PATH", "UNKNOWN[1999]", "USER_AUTH"}[rng.Intn(4)]
		body := []string{"a=1 b=2", "", "pid=1 comm=\"x\""}[rng.Intn(3)] // free of ( . : )
		line := fmt.Sprintf("type=%s msg=audit(%d.%03d:%d): %s", name, sec, ms, seq, body)
		closeAt := strings.IndexByte(line, ')')
		for n := 0; n <= closeAt; n++ {
			bad(line[:n], "truncated", true)
		}
		open := strings.IndexByte(line, '(')
		dot := strings.IndexByte(line, '.')
		colon := open + strings.IndexByte(line[open:], ':')
		for _, p := range []int{open, dot, colon, closeAt} {
			bad(line[:p]+line[p+1:], "separator removed", true)
		}
		// time stamps in a syntax that number parsers other than the decimal one take
		for _, ts := range []string{fmt.Sprintf("%d.", sec), fmt.Sprintf(".%03d", ms), fmt.Sprintf("%d.0e1", sec), fmt.Sprintf("%d.1e2", sec), "0x1p3.011", "1e9.011",
			fmt.Sprintf("%d.%03d ", sec, ms), fmt.Sprintf(" %d.%03d", sec, ms),
			fmt.Sprintf("%d.1_1", sec), fmt.Sprintf("%d_0.011", sec), "Inf.011", "NaN.011", fmt.Sprintf("%d.", sec) + "٠١١"} {
			bad(fmt.Sprintf("type=%s msg=audit(%s:%d): %s", name, ts, seq, body), "time stamp is not decimal seconds.milliseconds", true)
		}
		// a sequence number that does not fit 32 bits is not a sequence number
		for _, big := range []string{"4294967296", "4294967297", "42949672950", "18446744073709551615", "18446744073709551616", "99999999999999999999999"} {
			bad(fmt.Sprintf("type=%s msg=audit(%d.%03d:%s): %s", name, sec, ms, big, body), "sequence does not fit 32 bits", true)
		}
		for i := open + 1; i < closeAt; i++ {
			if line[i] >= '0' && line[i] <= '9' {
				b := []byte(line)
				b[i] = "xyzqjk"[rng.Intn(6)]
				bad(string(b), "non-digit in a numeric field", true)
			}
		}
		// every run of bytes cut out of the 'type=T msg=' prefix
		pre := strings.Index(line, "audit(")
		for from := 0; from < pre; from++ {
			for to := from + 1; to <= pre; to++ {
				bad(line[:from]+line[to:], "cut", false)
			}
		}
	}
	// type names around the UNKNOWN[n] form
	for _, tn := range []string{"]UNKNOWN[1329", "][", "a]b[1300]", "UNKNOWN]1[", "[", "]", "UNKNOWN[", "UNKNOWN[]", "UNKNOWN[-1]", "UNKNOWN[+1]",
		"UNKNOWN[65536]", "UNKNOWN[99999999999999999999]", "UNKNOWN[1300", "UNKNOWN1300]", "UNKNOWN[[1300]]", "UNKNOWN[13 00]", "UNKNOWN[0x10]",
		"[1300]", "]]]][[[[", "UNKNOWN[1300]]", "unknown[x]", "", " ", "=", "SYSCALL[", "SYSCALL]"} {
		bad("type="+tn+" msg=audit(1490137971.011:50406): a=1", "typename", false)
	}
	w.close()
	printJSON(map[string]interface{}{"stats": stats})
	return 0
}

// ---- C12: field values --------------------------------------------------------------------------------

func needsHex(v []byte) bool {
	for _, c := range v {
		if c == '"' || c < 0x21 || c > 0x7e {
			return true
		}
	}
	return false
}

func encodeUntrusted(v []byte) string {
	if needsHex(v) {
		return strings.ToUpper(hex.EncodeToString(v))
	}
	return `"` + string(v) + `"`
}

// randomValue draws a value inside C12's domain: bytes 0x01-0xFF, not beginning or
// ending with a quote character, not ending in a backslash, not a placeholder.
func randomValue(r *rand.Rand, allowNul bool) []byte {
	for {
		n := 1 + r.Intn(40)
		v := make([]byte, n)
		mode := r.Intn(5)
		for i := range v {
			switch mode {
			case 0: // safe printable
				v[i] = byte(0x21 + r.Intn(0x7e-0x21+1))
			case 1: // hex-looking upper case
				v[i] = "0123456789ABCDEF"[r.Intn(16)]
			case 2: // path-like with spaces
				v[i] = "abc/def ghi.-_"[r.Intn(14)]
			case 3: // any byte
				v[i] = byte(1 + r.Intn(255))
			default:
				v[i] = "aZ09=:'\\\"\t é"[r.Intn(12)]
			}
			if v[i] == 0 {
				v[i] = 1
			}
		}
		if allowNul && n > 3 && r.Intn(2) == 0 {
			// argument separators; an empty argument gives two in a row (grep "" file), several give a run
			for k := 1 + r.Intn(3); k > 0; k-- {
				at := 1 + r.Intn(n-2)
				for run := 1 + r.Intn(3); run > 0 && at < n-1; run-- {
					v[at] = 0
					at++
				}
			}
		}
		if v[0] == '"' || v[0] == '\'' || v[n-1] == '"' || v[n-1] == '\'' || v[n-1] == '\\' {
			continue
		}
		if allowNul && (v[0] == 0 || v[n-1] == 0) {
			continue
		}
		switch string(v) {
		case "?", "?,", "(null)":
			continue
		}
		return v
	}
}

type fieldSpec struct {
	rtype int
	key   string
	how   string
	line  func(enc string) string
}

var c12Fields = []fieldSpec{
	{1300, "exe", "untrusted", func(e string) string {
		return "arch=c000003e syscall=2 success=yes exit=3 a0=7ffc a1=0 a2=1b6 a3=24 items=1 ppid=1 pid=2 auid=1000 uid=0 gid=0 tty=pts0 ses=1 comm=\"cat\" exe=" + e + " key=(null)"
	}},
	{1307, "cwd", "untrusted", func(e string) string { return "cwd=" + e }},
	{1302, "name", "untrusted", func(e string) string {
		return "item=0 name=" + e + " inode=1 dev=08:01 mode=0100644 ouid=0 ogid=0 rdev=00:00 nametype=NORMAL"
	}},
	// cwd is decoded wherever it occurs, not only in CWD records (sudo's USER_CMD carries one)
	{1123, "cwd", "untrusted", func(e string) string {
		return "pid=1 uid=0 auid=0 ses=1 msg='cwd=" + e + " cmd=6C73 terminal=pts/0 res=success'"
	}},
	{1300, "cwd", "untrusted", func(e string) string {
		return "arch=c000003e syscall=2 success=yes exit=3 a0=7ffc items=1 ppid=1 pid=2 auid=1000 uid=0 comm=\"cat\" exe=\"/bin/cat\" cwd=" + e + " key=(null)"
	}},
	{1101, "cwd", "untrusted", func(e string) string { return "pid=1 uid=0 auid=0 ses=1 msg='op=x cwd=" + e + " res=success'" }},
	{2999, "cwd", "untrusted", func(e string) string { return "pid=1 cwd=" + e + " zz=1" }},
	{1326, "exe", "untrusted", func(e string) string {
		return "auid=1000 uid=0 gid=0 ses=1 pid=2 comm=\"cat\" exe=" + e + " sig=31 arch=c000003e syscall=2 compat=0 ip=0x7f code=0x0"
	}},
	{1327, "proctitle", "proctitle", func(e string) string { return "proctitle=" + e }},
	{1123, "cmd", "untrusted", func(e string) string {
		return "pid=1 uid=0 auid=0 ses=1 msg='cwd=\"/root\" cmd=" + e + " terminal=pts/0 res=success'"
	}},
	{1319, "data", "untrusted", func(e string) string { return "tty pid=1 uid=0 auid=0 ses=1 major=136 minor=0 comm=\"bash\" data=" + e }},
	{1124, "data", "untrusted", func(e string) string { return "pid=1 uid=0 auid=0 ses=1 data=" + e }},
	{1112, "acct", "untrusted", func(e string) string {
		return "pid=1 uid=0 auid=4294967295 ses=4294967295 msg='op=login acct=" + e + " exe=\"/usr/sbin/sshd\" hostname=h addr=1.2.3.4 terminal=ssh res=failed'"
	}},
}

var plainKeys = []string{"ppid", "pid", "uid", "gid", "euid", "fsuid", "tty", "inode", "dev", "mode", "ouid", "ogid", "rdev", "nametype",
	"terminal", "addr", "op", "ver", "format", "kernel", "lport", "family", "xyz-1", "a_b", "laddr", "fp", "ksize", "direction"}

func dataOf(rtype int, body string) (data map[string]string, err error, panicked bool) {
	defer func() {
		if p := recover(); p != nil {
			panicked = true
		}
	}()
	m, perr := auparse.Parse(auparse.AuditMessageType(rtype), "audit(1490137971.011:50406): "+body)
	if perr != nil {
		return nil, perr, false
	}
	d, derr := m.Data()
	return d, derr, false
}

func sc0() string { return "exe=\"/bin/x\" arch=c000003e syscall=2 " }

var archCodes = map[string]uint32{"x86_64": 0xC000003E, "i386": 0x40000003, "aarch64": 0xC00000B7, "arm": 0x40000028, "ppc": 0x14,
	"ppc64": 0x80000015, "ppc64le": 0xC0000015, "s390": 0x16, "s390x": 0x80000016}

func parseFieldsCmd(args []string) int {
	fs := flag.NewFlagSet("parse-fields", flag.ExitOnError)
	out := fs.String("out", "", "trace ndjson")
	seed := fs.Int64("seed", 1, "seed")
	n := fs.Int("n", 2000, "random values per decoded field")
	extras := fs.Bool("extras", false, "only the record-format rules beyond the listed properties (tags, AVC, LOGIN)")
	fs.Parse(args)
	rng := newRand(*seed, 12)
	w := newNDWriter(*out)
	w.write(map[string]interface{}{"k": "meta", "family": "parse"})
	stats := map[string]int{}
	trace := 0
	base := func(how string, rtype int, key string) map[string]interface{} {
		trace++
		return map[string]interface{}{"k": "field", "trace": trace, "how": how, "rtype": rtype, "key": key, "orig": []int{}, "enc": []int{},
			"present": false, "got": []int{}, "want": []int{}, "panic": false, "err": "", "rule": ""}
	}
	if *extras {
		keyChars := "abcdefghijklmnopqrstuvwxyzABCDEFGHIJKLMNOPQRSTUVWXYZ0123456789_-./:@%+ "
		for i := 0; i < *n; i++ {
			nk := 1 + rng.Intn(4)
			keys := [][]int{}
			var joined []byte
			for k := 0; k < nk; k++ {
				b := make([]byte, 1+rng.Intn(12))
				for j := range b {
					b[j] = keyChars[rng.Intn(len(keyChars))]
				}
				if b[0] == ' ' {
					b[0] = 'k'
				}
				if b[len(b)-1] == ' ' {
					b[len(b)-1] = 'k'
				}
				keys = append(keys, bytesOf(b))
				if k > 0 {
					joined = append(joined, 1)
				}
				joined = append(joined, b...)
			}
			enc := encodeUntrusted(joined)
			body := sc0() + "success=yes exit=0 key=" + enc
			trace++
			rec := map[string]interface{}{"k": "field", "trace": trace, "how": "xtags", "rtype": 1300, "key": "key", "keys": keys,
				"joined": bytesOf(joined), "enc": bytesOfS(enc), "tags": [][]int{}, "panic": false, "body": body}
			func() {
				defer func() {
					if p := recover(); p != nil {
						rec["panic"] = true
					}
				}()
				m, err := auparse.Parse(1300, "audit(1490137971.011:50406): "+body)
				if err == nil {
					tg, _ := m.Tags()
					out := [][]int{}
					for _, t := range tg {
						out = append(out, bytesOfS(t))
					}
					rec["tags"] = out
				}
			}()
			w.write(rec)
			stats["tags"]++
		}
		xd := func(rule string, rtype int, body, key, want string) {
			d, _, pan := dataOf(rtype, body)
			rec := base("xderived", rtype, key)
			rec["rule"], rec["want"], rec["panic"], rec["body"] = rule, bytesOfS(want), pan, body
			if g, ok := d[key]; ok {
				rec["present"], rec["got"] = true, bytesOfS(g)
			}
			w.write(rec)
			stats["xderived"]++
		}
		perms := []string{"read", "write", "open", "getattr", "execute", "search", "connectto", "name_bind"}
		for i := 0; i < *n/4+20; i++ {
			res := []string{"denied", "granted"}[rng.Intn(2)]
			var ps []string
			for k := 1 + rng.Intn(4); k > 0; k-- {
				ps = append(ps, perms[rng.Intn(len(perms))])
			}
			body := fmt.Sprintf(`avc:  %s  { %s } for  pid=%d comm="x" name="y" dev="sda1" ino=2 scontext=a:b:c:s0 tcontext=d:e:f:s0 tclass=file permissive=0`,
				res, strings.Join(ps, " "), 1+rng.Intn(30000))
			xd("AVC result word -> seresult", 1400, body, "seresult", res)
			xd("AVC permission list -> seperms, comma separated", 1400, body, "seperms", strings.Join(ps, ","))
			xd("AVC target class stays", 1400, body, "tclass", "file")
		}
		for i := 0; i < 40; i++ {
			a, b, c2, d2 := rng.Intn(5000), rng.Intn(5000), 1+rng.Intn(500), 1+rng.Intn(500)
			body := fmt.Sprintf("pid=1 uid=0 old auid=%d new auid=%d old ses=%d new ses=%d res=1", a, b, c2, d2)
			xd("LOGIN 'old auid' -> old_auid", 1006, body, "old_auid", strconv.Itoa(a))
			xd("LOGIN 'new auid' -> new_auid", 1006, body, "new_auid", strconv.Itoa(b))
			xd("LOGIN 'old ses' -> old_ses", 1006, body, "old_ses", strconv.Itoa(c2))
			xd("LOGIN 'new ses' -> new_ses", 1006, body, "new_ses", strconv.Itoa(d2))
		}
		w.close()
		printJSON(map[string]interface{}{"stats": stats})
		return 0
	}
	// untrusted strings through every decoding path
	for _, f := range c12Fields {
		for i := 0; i < *n; i++ {
			v := randomValue(rng, f.how == "proctitle")
			if strings.Contains(f.line("X"), "msg='") {
				// these fields sit inside msg='...': a single quote in a quoted value would end the outer string
				for j := range v {
					if v[j] == '\'' && !needsHex(v) {
						v[j] = 'q'
					}
				}
			}
			enc := encodeUntrusted(v)
			rec := base(f.how, f.rtype, f.key)
			rec["orig"], rec["enc"] = bytesOf(v), bytesOfS(enc)
			body := f.line(enc)
			d, err, pan := dataOf(f.rtype, body)
			rec["panic"] = pan
			if err != nil {
				rec["err"] = err.Error()
			}
			if g, ok := d[f.key]; ok {
				rec["present"], rec["got"] = true, bytesOfS(g)
			}
			rec["body"] = body
			w.write(rec)
			stats["untrusted"]++
		}
	}
	// EXECVE arguments
	for i := 0; i < *n; i++ {
		argc := 1 + rng.Intn(5)
		if i%4 == 3 { // long argument lists: the count has two digits
			argc = 10 + rng.Intn(31)
		}
		var sb strings.Builder
		fmt.Fprintf(&sb, "argc=%d", argc)
		vals := make([][]byte, argc)
		for a := 0; a < argc; a++ {
			vals[a] = randomValue(rng, false)
			if rng.Intn(3) == 0 { // force a hex argument, sometimes shorter than the previous one
				vals[a] = append([]byte("x y"), vals[a][:rng.Intn(len(vals[a])+1)]...)
			}
			fmt.Fprintf(&sb, " a%d=%s", a, encodeUntrusted(vals[a]))
		}
		d, err, pan := dataOf(1309, sb.String())
		for a := 0; a < argc; a++ {
			key := "a" + strconv.Itoa(a)
			rec := base("execve", 1309, key)
			rec["orig"], rec["enc"], rec["panic"], rec["body"] = bytesOf(vals[a]), bytesOfS(encodeUntrusted(vals[a])), pan, sb.String()
			if err != nil {
				rec["err"] = err.Error()
			}
			if g, ok := d[key]; ok {
				rec["present"], rec["got"] = true, bytesOfS(g)
			}
			w.write(rec)
			stats["execve_args"]++
		}
		// the count itself is a plain field: it stays what the kernel wrote
		rec := base("plain", 1309, "argc")
		rec["orig"], rec["panic"], rec["body"] = bytesOfS(strconv.Itoa(argc)), pan, sb.String()
		if g, ok := d["argc"]; ok {
			rec["present"], rec["got"] = true, bytesOfS(g)
		}
		w.write(rec)
		stats["plain"]++
	}
	// plain tokens, placeholders
	plainChars := "abcdefghijklmnopqrstuvwxyzABCDEFGHIJKLMNOPQRSTUVWXYZ0123456789=:/.,-_+@%()[]{}<>!?*#~^|\\;&$"
	for i := 0; i < *n; i++ {
		key := plainKeys[rng.Intn(len(plainKeys))]
		ln := 1 + rng.Intn(20)
		v := make([]byte, ln)
		for j := range v {
			v[j] = plainChars[rng.Intn(len(plainChars))]
		}
		switch string(v) {
		case "?", "?,", "(null)":
			v = []byte("x")
		}
		rtype := []int{1100, 1305, 1302, 1300}[rng.Intn(4)]
		body := "res=success " + key + "=" + string(v) + " zz=1"
		if rtype == 1300 {
			body = "exe=\"/bin/x\" arch=c000003e syscall=2 success=yes exit=0 " + key + "=" + string(v) + " zz=1"
		}
		d, _, pan := dataOf(rtype, body)
		rec := base("plain", rtype, key)
		rec["orig"], rec["panic"], rec["body"] = bytesOf(v), pan, body
		if g, ok := d[key]; ok {
			rec["present"], rec["got"] = true, bytesOfS(g)
		}
		w.write(rec)
		stats["plain"]++
	}
	for _, ph := range []string{"?", "?,", "(null)", `""`, `"?"`, `"(null)"`, "''"} {
		for _, key := range []string{"tty", "comm", "terminal", "hostname", "addr", "xkey"} {
			body := "res=success " + key + "=" + ph + " zz=1"
			d, _, pan := dataOf(1100, body)
			rec := base("dropped", 1100, key)
			rec["orig"], rec["panic"], rec["body"] = bytesOfS(ph), pan, body
			_, rec["present"] = d[key]
			w.write(rec)
			stats["placeholders"]++
		}
	}
	for _, keep := range []string{"??", "?x", "null", "(nul)", "0", "-", ",", "(null", "NULL", "?,?"} {
		body := "res=success tty=" + keep + " zz=1"
		d, _, pan := dataOf(1100, body)
		rec := base("kept", 1100, "tty")
		rec["orig"], rec["panic"], rec["body"] = bytesOfS(keep), pan, body
		_, rec["present"] = d["tty"]
		w.write(rec)
		stats["kept"]++
	}
	// derived fields
	derived := func(rule string, rtype int, body, key, want string) {
		d, _, pan := dataOf(rtype, body)
		rec := base("derived", rtype, key)
		rec["rule"], rec["want"], rec["panic"], rec["body"] = rule, bytesOfS(want), pan, body
		if g, ok := d[key]; ok {
			rec["present"], rec["got"] = true, bytesOfS(g)
		}
		w.write(rec)
		stats["derived"]++
	}
	sc := "exe=\"/bin/x\" arch=c000003e syscall=2 "
	derived("success=yes -> result=success", 1300, sc+"success=yes exit=0", "result", "success")
	derived("success=no -> result=fail", 1300, sc+"success=no exit=-13", "result", "fail")
	derived("res=success -> result=success", 1100, "pid=1 msg='op=x res=success'", "result", "success")
	derived("res=failed -> result=fail", 1100, "pid=1 msg='op=x res=failed'", "result", "fail")
	derived("res=1 -> result=success", 1006, "pid=1 uid=0 old auid=1 new auid=2 old ses=1 new ses=2 res=1", "result", "success")
	derived("res=0 -> result=fail", 1006, "pid=1 uid=0 old auid=1 new auid=2 old ses=1 new ses=2 res=0", "result", "fail")
	for _, unset := range []string{"4294967295", "-1"} {
		derived("auid unset", 1300, sc+"success=yes exit=0 auid="+unset+" ses=5", "auid", "unset")
		derived("ses unset", 1300, sc+"success=yes exit=0 auid=5 ses="+unset, "ses", "unset")
		derived("old-auid unset", 1006, "pid=1 uid=0 old-auid="+unset+" auid=1000 old-ses=1 ses=2 res=1", "old-auid", "unset")
	}
	derived("auid set stays", 1300, sc+"success=yes exit=0 auid=1000 ses=5", "auid", "1000")
	derived("non-negative exit stays numeric", 1300, sc+"success=yes exit=13", "exit", "13")
	for e := 1; e <= 133; e++ {
		body := fmt.Sprintf("%ssuccess=no exit=-%d", sc, e)
		d, _, pan := dataOf(1300, body)
		rec := base("errno", 1300, "exit")
		rec["errno"], rec["panic"], rec["body"] = e, pan, body
		rec["gotname"] = ""
		if g, ok := d["exit"]; ok {
			rec["present"], rec["gotname"] = true, g
		}
		if e == 41 || e == 58 { // numbers without a name stay numeric
			rec["how"], rec["rule"], rec["want"] = "derived", "an exit code without an errno name stays numeric", bytesOfS(fmt.Sprintf("-%d", e))
			if g, ok := d["exit"]; ok {
				rec["got"] = bytesOfS(g)
			}
		}
		w.write(rec)
		stats["errnos"]++
	}
	// arch and syscall names: every entry of the exported tables
	arches := []string{}
	for a := range auparse.AuditSyscalls {
		arches = append(arches, a)
	}
	sort.Strings(arches)
	for _, a := range arches {
		code, known := archCodes[a]
		if !known {
			stats["arch_tables_skipped"]++
			continue
		}
		body := fmt.Sprintf("exe=\"/bin/x\" arch=%x syscall=0 success=yes exit=0", code)
		d, _, pan := dataOf(1300, body)
		rec := base("arch", 1300, "arch")
		rec["arch"], rec["panic"], rec["body"], rec["gotname"] = limbs(code), pan, body, ""
		if g, ok := d["arch"]; ok {
			rec["present"], rec["gotname"] = true, g
		}
		w.write(rec)
		nums := []int{}
		for num := range auparse.AuditSyscalls[a] {
			nums = append(nums, num)
		}
		sort.Ints(nums)
		for _, num := range nums {
			derived("syscall number -> the published table's name ("+a+")", 1300,
				fmt.Sprintf("exe=\"/bin/x\" arch=%x syscall=%d success=yes exit=0", code, num), "syscall", auparse.AuditSyscalls[a][num])
			stats["syscall_names"]++
		}
	}
	// numbers against the kernel's own table (transcribed in UAPI.tla) for x86_64 and i386
	for _, a := range []string{"x86_64", "i386"} {
		for nr := 0; nr <= 450; nr++ {
			body := fmt.Sprintf("exe=\"/bin/x\" arch=%x syscall=%d success=yes exit=0", archCodes[a], nr)
			d, _, pan := dataOf(1300, body)
			rec := base("uapi_syscall", 1300, "syscall")
			rec["archname"], rec["nr"], rec["panic"], rec["body"], rec["gotname"] = a, nr, pan, body, ""
			if g, ok := d["syscall"]; ok {
				rec["present"], rec["gotname"] = true, g
			}
			w.write(rec)
			stats["uapi_syscalls"]++
		}
	}
	// socket addresses
	saddr := func(raw []byte, fam string, addr []byte, port int, path []byte) {
		enc := strings.ToUpper(hex.EncodeToString(raw))
		d, err, pan := dataOf(1306, "saddr="+enc)
		trace++
		rec := map[string]interface{}{"k": "field", "trace": trace, "how": "saddr", "rtype": 1306, "key": "saddr", "raw": bytesOf(raw),
			"enc": bytesOfS(enc), "panic": pan, "want_family": fam, "want_addr": bytesOf(addr), "want_port": port, "want_path": bytesOf(path),
			"family": d["family"], "addr_bytes": []int{}, "port": -1, "path": bytesOfS(d["path"]), "err": fmt.Sprint(err)}
		if ip := net.ParseIP(d["addr"]); ip != nil {
			rec["addr_bytes"] = bytesOf(ip.To16())
		}
		if p, e := strconv.Atoi(d["port"]); e == nil {
			rec["port"] = p
		}
		w.write(rec)
		stats["saddr"]++
	}
	ip4s := [][]byte{{0, 0, 0, 0}, {255, 255, 255, 255}, {127, 0, 0, 1}, {1, 2, 3, 4}, {10, 0, 0, 255}, {192, 168, 1, 1}, {0, 255, 0, 255}}
	ports := []int{0, 1, 22, 255, 256, 8080, 32768, 65535}
	for i := 0; i < 300+*n/4; i++ {
		ip := ip4s[rng.Intn(len(ip4s))]
		if rng.Intn(2) == 0 {
			ip = []byte{byte(rng.Intn(256)), byte(rng.Intn(256)), byte(rng.Intn(256)), byte(rng.Intn(256))}
		}
		port := ports[rng.Intn(len(ports))]
		if rng.Intn(2) == 0 {
			port = rng.Intn(65536)
		}
		raw := append([]byte{2, 0, byte(port >> 8), byte(port)}, ip...)
		raw = append(raw, make([]byte, 8)...)
		saddr(raw, "ipv4", net.IP(ip).To16(), port, nil)
	}
	ip6s := []string{"::", "::1", "fe80::1", "2001:db8::ff00:42:8329", "::ffff:1.2.3.4", "ff02::1", "1:2:3:4:5:6:7:8"}
	for i := 0; i < 300+*n/4; i++ {
		ip := net.ParseIP(ip6s[rng.Intn(len(ip6s))]).To16()
		if rng.Intn(2) == 0 {
			ip = make([]byte, 16)
			rng.Read(ip)
		}
		port := rng.Intn(65536)
		raw := append([]byte{10, 0, byte(port >> 8), byte(port), 0, 0, 0, 0}, ip...)
		raw = append(raw, 0, 0, 0, 0)
		saddr(raw, "ipv6", ip, port, nil)
	}
	for i := 0; i < 200+*n/8; i++ {
		p := randomValue(rng, false)
		for j := range p { // a path: no NUL inside
			if p[j] == 0 {
				p[j] = '/'
			}
		}
		path := append([]byte(nil), p...)
		if rng.Intn(2) == 0 {
			path = append(path, make([]byte, 1+rng.Intn(20))...) // NUL padding up to the address length
			if rng.Intn(3) == 0 {
				path = append(path, randomValue(rng, false)...) // stale bytes after the terminator
			}
		}
		raw := append([]byte{1, 0}, path...)
		saddr(raw, "unix", nil, 0, path)
	}
	w.close()
	printJSON(map[string]interface{}{"stats": stats})
	return 0
}

// ---- C05: totality ---------------------------------------------------------------------------------------

var baseBodies = map[int]string{
	1300: `arch=c000003e syscall=2 success=yes exit=3 a0=1 a1=2 a2=3 a3=4 items=1 ppid=1 pid=2 auid=1000 uid=0 gid=0 ses=1 comm="cat" exe="/bin/cat" sig=11 subj=unconfined key=(null)`,
	1326: `auid=1000 uid=0 gid=0 ses=1 pid=2 comm="x" exe="/bin/x" sig=31 arch=c000003e syscall=2 compat=0 ip=0x7f code=0x0`,
	1306: `saddr=020000160A000001000000000000000`,
	1309: `argc=2 a0="ls" a1="-l"`,
	1400: `avc:  denied  { read write } for  pid=1 comm="x" name="y" dev="sda1" ino=2 scontext=a:b:c:s0 tcontext=d:e:f:s0 tclass=file permissive=0`,
	1006: `pid=1 uid=0 old auid=4294967295 new auid=1000 old ses=4294967295 new ses=2 res=1`,
	1302: `item=0 name="/etc/passwd" inode=1 dev=08:01 mode=0100644 ouid=0 ogid=0 rdev=00:00 obj=system_u:object_r:etc_t:s0 nametype=NORMAL`,
	1327: `proctitle=636174002F6574632F706173737764`,
	1123: `pid=1 uid=0 auid=0 ses=1 msg='cwd="/root" cmd=6C73202D6C terminal=pts/0 res=success'`,
	1319: `tty pid=1 uid=0 auid=0 ses=1 major=136 minor=0 comm="bash" data=6C730A`,
	1124: `pid=1 uid=0 auid=0 ses=1 data=6C730A`,
	1112: `pid=1 uid=0 auid=4294967295 ses=4294967295 msg='op=login acct="root" exe="/usr/sbin/sshd" hostname=h addr=1.2.3.4 terminal=ssh res=failed'`,
	1104: `pid=1 uid=0 auid=0 ses=1 msg='op=PAM:setcred acct="root" exe="/usr/sbin/sshd" (hostname=h, addr=1.2.3.4, terminal=ssh res=success)'`,
	1105: `pid=1 uid=0 auid=0 ses=1 msg='op=PAM:session_open acct="root" exe="/usr/sbin/sshd" (hostname=h, addr=1.2.3.4, terminal=ssh res=success)'`,
	1106: `pid=1 uid=0 auid=0 ses=1 msg='op=PAM:session_close acct="root" exe="/usr/sbin/sshd" (hostname=h, addr=1.2.3.4, terminal=ssh res=success)'`,
	1307: `cwd="/root"`,
}

func shapedValue(r *rand.Rand, shape string) string {
	rb := func(n int) []byte { b := make([]byte, n); r.Read(b); return b }
	switch shape {
	case "quoted":
		return `"` + string(bytes.Map(func(c rune) rune {
			if c == '"' {
				return 'q'
			}
			return c
		}, []byte("val"+strconv.Itoa(r.Intn(1000))))) + `"`
	case "hex":
		return strings.ToUpper(hex.EncodeToString(rb(1 + r.Intn(30))))
	case "oddhex":
		h := strings.ToUpper(hex.EncodeToString(rb(1 + r.Intn(30))))
		return h[:len(h)-1]
	case "lowerhex":
		return hex.EncodeToString(rb(1 + r.Intn(30)))
	case "empty":
		return ""
	case "quoted_empty":
		return `""`
	case "placeholder":
		return []string{"?", "?,", "(null)", `"?"`}[r.Intn(4)]
	case "unbalanced_dq":
		return `"abc def`
	case "unbalanced_sq":
		return `'abc def`
	case "single_quoted":
		return `'a b c'`
	case "nested_msg":
		return `'x=1 msg='y=2 z="3" msg='q=4'' w=4'`
	case "huge_number":
		return "99999999999999999999999999"
	case "negative":
		return []string{"-1", "-2147483649", "-0", "-9223372036854775808"}[r.Intn(4)]
	case "long":
		return strings.Repeat("Ab1/", 2500)
	case "binary":
		b := rb(1 + r.Intn(40))
		for i := range b {
			if b[i] == ' ' || b[i] == '\n' {
				b[i] = 0xfe
			}
		}
		return string(b)
	case "escaped_quote":
		return `"a\"b\\"`
	case "equals_inside":
		return "a=b=c=="
	case "colon_rich":
		return "a:b:c:d:e:f:g:h:i"
	case "hex_nul":
		return "6100620000630000"
	}
	return "x"
}

func instantiateParseCase(r *rand.Rand, c map[string]interface{}) (rtype int, body string, shape string, ok bool) {
	str := func(k string) string { s, _ := c[k].(string); return s }
	num := func(k string) int { f, _ := c[k].(float64); return int(f) }
	switch str("c") {
	case "shape":
		rtype = num("rtype")
		body = baseBodies[rtype]
		if body == "" {
			body = `pid=1 uid=0 auid=0 ses=1 msg='op=x res=success'`
		}
		field, sh := str("field"), str("shape")
		shape = fmt.Sprintf("%d/%s/%s", rtype, field, sh)
		// drop the existing occurrence of the field, then add the shaped one
		strip := func(b string) string {
			out := []string{}
			for _, tok := range strings.Split(b, " ") {
				if strings.HasPrefix(tok, field+"=") {
					continue
				}
				out = append(out, tok)
			}
			return strings.Join(out, " ")
		}
		switch sh {
		case "missing":
			body = strip(body)
		case "duplicate":
			body = body + " " + field + "=" + shapedValue(r, "quoted") + " " + field + "=" + shapedValue(r, "hex")
		default:
			v := shapedValue(r, sh)
			if r.Intn(2) == 0 {
				body = strip(body) + " " + field + "=" + v
			} else {
				body = field + "=" + v + " " + strip(body)
			}
		}
		return rtype, body, shape, true
	case "pair":
		rtype = num("rtype")
		body = baseBodies[rtype]
		apply := func(b, field, sh string) string {
			out := []string{}
			for _, tok := range strings.Split(b, " ") {
				if !strings.HasPrefix(tok, field+"=") {
					out = append(out, tok)
				}
			}
			b = strings.Join(out, " ")
			if sh == "missing" {
				return b
			}
			return b + " " + field + "=" + shapedValue(r, sh)
		}
		body = apply(apply(body, str("f1"), str("s1")), str("f2"), str("s2"))
		return rtype, body, fmt.Sprintf("pair/%d/%s:%s/%s:%s", rtype, str("f1"), str("s1"), str("f2"), str("s2")), true
	case "saddr":
		fam, n := num("family"), num("hexlen")
		raw := make([]byte, 40)
		r.Read(raw)
		raw[0], raw[1] = byte(fam), byte(fam>>8)
		h := strings.ToUpper(hex.EncodeToString(raw))
		if n > len(h) {
			n = len(h)
		}
		return 1306, "saddr=" + h[:n], fmt.Sprintf("saddr/%d/%d", fam, n), true
	case "selinux":
		n := num("parts")
		parts := []string{}
		for i := 0; i < n; i++ {
			parts = append(parts, []string{"system_u", "object_r", "etc_t", "s0", "c1,c2-s0", "c1.c1023", "", "x"}[r.Intn(8)])
		}
		rtype = num("rtype")
		body = baseBodies[rtype]
		if body == "" {
			body = "pid=1 res=success"
		}
		return rtype, body + " " + str("field") + "=" + strings.Join(parts, ":"), fmt.Sprintf("selinux/%s/%d", str("field"), n), true
	case "avc":
		forms := map[string]string{
			"selinux":       `avc:  denied  { read } for  pid=1 comm="x" scontext=a:b:c:s0 tcontext=d:e:f:s0 tclass=file`,
			"no_braces":     `avc:  denied  read for  pid=1 comm="x"`,
			"empty_braces":  `avc:  granted  {  } for  pid=1`,
			"open_brace":    `avc:  denied  { read for  pid=1 comm="x"`,
			"apparmor":      `apparmor="DENIED" operation="open" profile="/usr/sbin/x" name="/etc/y" pid=1 comm="x" requested_mask="r" denied_mask="r" fsuid=0 ouid=0`,
			"many_perms":    `avc:  denied  { read write open getattr setattr execute } for  pid=1 comm="x" tclass=file`,
			"for_missing":   `avc:  denied  { read } pid=1`,
			"nested_braces": `avc:  denied  { { read } } for  { x } for  pid=1`,
			"no_perms":      `avc:  denied  for  pid=1 comm="x" scontext=a:b:c:s0 tcontext=d:e:f:s0 tclass=file`,
			"only_prefix":   `avc:  denied  `,
			"braces_at_end": `avc:  granted  { read }`,
			"double_for":    `avc:  denied  { read } for  for  pid=1`,
		}
		return num("rtype"), forms[str("form")], "avc/" + str("form"), true
	case "execve":
		argc := str("argc")
		present := num("present")
		var sb strings.Builder
		fmt.Fprintf(&sb, "argc=%s", argc)
		for i := 0; i < present; i++ {
			var v string
			switch str("enc") {
			case "quoted":
				v = `"arg` + strconv.Itoa(i) + `"`
			case "hex":
				v = strings.ToUpper(hex.EncodeToString([]byte("a b" + strconv.Itoa(i))))
			case "mixed":
				v = []string{`"q"`, "6120620A", "(null)"}[i%3]
			default:
				v = []string{`"`, "6G", "'", "\\"}[i%4]
			}
			fmt.Fprintf(&sb, " a%d=%s", i, v)
		}
		return 1309, sb.String(), fmt.Sprintf("execve/%s/%d/%s", argc, present, str("enc")), true
	}
	return 0, "", "", false
}

type totalCase struct {
	rtype int
	text  string // what follows "msg="
	shape string
	name  string // type name for ParseLogLine ("" = the library's name)
	line  string // a whole log line for ParseLogLine alone (text is then unused)
}

func digestOf(m *auparse.AuditMessage) string {
	d, derr := m.Data()
	t, terr := m.Tags()
	ms := m.ToMapStr()
	b, _ := json.Marshal([]interface{}{d, fmt.Sprint(derr), t, fmt.Sprint(terr), ms})
	return string(b)
}

func runTotal(c totalCase) (ret string, same bool) {
	defer func() {
		if p := recover(); p != nil {
			ret, same = "panic", false
		}
	}()
	ret, same = "err", true
	name := c.name
	if name == "" {
		name = auparse.AuditMessageType(c.rtype).String()
	}
	var m1, m2 *auparse.AuditMessage
	var e1, e2 error
	if c.line != "" {
		m1, e1 = auparse.ParseLogLine(c.line)
		m2, e2 = nil, fmt.Errorf("unused")
	} else {
		m1, e1 = auparse.Parse(auparse.AuditMessageType(c.rtype), c.text)
		m2, e2 = auparse.ParseLogLine("type=" + name + " msg=" + c.text)
	}
	for _, pr := range []struct {
		m *auparse.AuditMessage
		e error
	}{{m1, e1}, {m2, e2}} {
		if pr.e != nil || pr.m == nil {
			continue
		}
		ret = "ok"
		d1 := digestOf(pr.m)
		// call the accessors in different orders too
		pr.m.Tags()
		pr.m.ToMapStr()
		d2 := digestOf(pr.m)
		pr.m.ToMapStr()
		d3 := digestOf(pr.m)
		if d1 != d2 || d2 != d3 {
			same = false
		}
	}
	return ret, same
}

func mutate(r *rand.Rand, line string, corpus []string) string {
	b := []byte(line)
	if len(b) == 0 {
		return line
	}
	switch r.Intn(8) {
	case 0:
		b[r.Intn(len(b))] ^= byte(1 << uint(r.Intn(8)))
	case 1:
		i := r.Intn(len(b))
		b = append(b[:i], b[i+1:]...)
	case 2:
		i := r.Intn(len(b))
		b = append(b[:i+1], b[i:]...)
	case 3:
		other := corpus[r.Intn(len(corpus))]
		i, j := r.Intn(len(b)), r.Intn(len(other)+1)
		b = append(b[:i], other[j:]...)
	case 4:
		b = b[:r.Intn(len(b))]
	case 5:
		i := r.Intn(len(b))
		special := "\"'=() :.\\\x00\xff[]"
		b[i] = special[r.Intn(len(special))]
	case 6:
		i := r.Intn(len(b))
		ins := []string{"msg=", "'", "\"", "=", "key=", "a0=", "argc=99999999", "saddr=", "subj=a:b:c:d:e:f:g", "exit=-", "type="}[r.Intn(11)]
		b = append(b[:i], append([]byte(ins), b[i:]...)...)
	default:
		i := r.Intn(len(b))
		j := i + r.Intn(len(b)-i)
		b = append(b[:i], b[j:]...)
	}
	return string(b)
}

func parseTotalCmd(args []string) int {
	fs := flag.NewFlagSet("parse-total", flag.ExitOnError)
	cases := fs.String("cases", "", "TLC case descriptors")
	out := fs.String("out", "", "trace ndjson")
	seed := fs.Int64("seed", 1, "seed")
	reps := fs.Int("reps", 3, "instantiations per case")
	muts := fs.Int("mutations", 60, "mutations per corpus line")
	random := fs.Int("random", 20000, "random inputs")
	repo := fs.String("repo", "/repo", "repository root (log corpora)")
	fs.Parse(args)
	rng := newRand(*seed, 5)
	var all []totalCase
	hdr := "audit(1490137971.011:50406): "
	if *cases != "" {
		readND(*cases, func(line []byte) {
			var c map[string]interface{}
			json.Unmarshal(line, &c)
			if c["c"] == "hdrnum" {
				n := int(c["len"].(float64))
				var d string
				switch c["fill"].(string) {
				case "zeros":
					d = strings.Repeat("0", n)
				case "nines":
					d = strings.Repeat("9", n)
				case "lead0":
					if n > 0 {
						d = strings.Repeat("0", n-1) + "7"
					}
				case "one0":
					if n > 0 {
						d = "1" + strings.Repeat("0", n-1)
					}
				case "plus":
					d = "+" + strings.Repeat("1", n)
				case "minus":
					d = "-" + strings.Repeat("1", n)
				}
				sec, ms, seq := "1490137971", "011", "50406"
				switch c["field"].(string) {
				case "sec":
					sec = d
				case "ms":
					ms = d
				case "seq":
					seq = d
				}
				h := "audit(" + sec + "." + ms + ":" + seq + "): "
				all = append(all, totalCase{rtype: 1300, text: h + "a=1", shape: "hdrnum/" + c["field"].(string)})
				all = append(all, totalCase{rtype: 1300, line: "type=SYSCALL msg=" + h + "a=1", shape: "hdrnum/" + c["field"].(string)})
				return
			}
			if c["c"] == "header" {
				how := c["how"].(string)
				t := map[string]string{
					"ok": hdr + "a=1", "no_paren": "audit 1.002:3): a=1", "no_dot": "audit(1002:3): a=1", "no_colon": "audit(1.002 3): a=1",
					"no_close": "audit(1.002:3 a=1", "alpha_sec": "audit(x.002:3): a=1", "alpha_ms": "audit(1.0x2:3): a=1",
					"alpha_seq": "audit(1.002:z): a=1", "empty_sec": "audit(.002:3): a=1", "empty_seq": "audit(1.002:): a=1",
					"seq_overflow": "audit(1.002:4294967296): a=1", "neg_seq": "audit(1.002:-3): a=1",
					"huge_sec": "audit(99999999999999999999.002:3): a=1", "no_msg": "", "no_type": hdr, "unknown_type": hdr + "a=1",
					"unknown_bracket": hdr + "a=1", "spaces": "   " + hdr + "  a=1   ", "only_header": "audit(1.002:3)",
				}[how]
				tc := totalCase{rtype: 1300, text: t, shape: "header/" + how}
				switch how {
				case "unknown_type":
					tc.name = "NO_SUCH_TYPE"
				case "unknown_bracket":
					tc.name = "UNKNOWN[99999999]"
				}
				all = append(all, tc)
				return
			}
			for i := 0; i < *reps; i++ {
				if rt, body, shape, ok := instantiateParseCase(rng, c); ok {
					all = append(all, totalCase{rtype: rt, text: hdr + body, shape: shape})
				}
			}
		})
	}
	// whole lines: runs of bytes cut out of the 'type=T msg=' prefix, type names around the UNKNOWN[n] form
	for _, tn := range []string{"SYSCALL", "UNKNOWN[1999]", "USER_AUTH", "PATH"} {
		l := "type=" + tn + " msg=" + hdr + "a=1"
		pre := strings.Index(l, "audit(")
		for from := 0; from < pre; from++ {
			for to := from + 1; to <= pre; to++ {
				all = append(all, totalCase{rtype: 1300, line: l[:from] + l[to:], shape: "prefix-cut"})
			}
		}
	}
	for _, tn := range []string{"]UNKNOWN[1329", "][", "a]b[1300]", "UNKNOWN]1[", "[", "]", "UNKNOWN[", "UNKNOWN[]", "UNKNOWN[-1]", "UNKNOWN[+1]",
		"UNKNOWN[65536]", "UNKNOWN[99999999999999999999]", "UNKNOWN[1300", "UNKNOWN1300]", "UNKNOWN[[1300]]", "UNKNOWN[13 00]", "UNKNOWN[0x10]",
		"[1300]", "]]]][[[[", "UNKNOWN[1300]]", "unknown[x]", " ", "=", "SYSCALL[", "SYSCALL]"} {
		all = append(all, totalCase{rtype: 1300, line: "type=" + tn + " msg=" + hdr + "a=1", shape: "type-name"})
	}
	// values that are well-formed but name nothing the tables know
	for _, rt := range []int{1300, 1326} {
		for _, v := range []string{"arch=c000003f", "arch=0", "arch=deadbeef", "arch=ffffffff", "arch=1", "arch=c000003e syscall=99999", "arch=40000003 syscall=4000",
			"arch=c000003e syscall=-1", "arch=c000003e syscall=0 exit=-4095", "arch=c000003e syscall=0 exit=-99999", "arch=c000003e syscall=0 sig=999", "arch=c000003e syscall=0 sig=-1",
			"arch=c000003e syscall=0 a0=zz", "arch=c000003e syscall=0 auid=99999999999", "arch=c000003e syscall=0 ses=-1"} {
			all = append(all, totalCase{rtype: rt, text: hdr + "exe=\"/bin/x\" " + v + " success=yes exit=0", shape: "unknown-to-the-tables"})
		}
	}
	// corpus mutations
	var corpus []string
	for _, pat := range []string{"auparse/testdata/*.log", "testdata/*.log"} {
		files, _ := filepath.Glob(filepath.Join(*repo, pat))
		for _, f := range files {
			data, err := os.ReadFile(f)
			if err != nil {
				continue
			}
			for _, l := range strings.Split(string(data), "\n") {
				if strings.TrimSpace(l) != "" {
					corpus = append(corpus, l)
				}
			}
		}
	}
	for _, l := range corpus {
		i := strings.Index(l, "msg=")
		rt := 1300
		if i > 5 {
			if t, err := auparse.GetAuditMessageType(l[5 : i-1]); err == nil {
				rt = int(t)
			}
		}
		for k := 0; k < *muts; k++ {
			m := mutate(rng, l, corpus)
			for extra := rng.Intn(3); extra > 0; extra-- {
				m = mutate(rng, m, corpus)
			}
			j := strings.Index(m, "msg=")
			text := m
			if j >= 0 {
				text = m[j+4:]
			}
			t := rt
			if rng.Intn(4) == 0 {
				t = []int{1300, 1326, 1306, 1309, 1400, 1006, 1302, 1327, 1123, 1319, 1124, 1112, 1104, rng.Intn(65536)}[rng.Intn(14)]
			}
			all = append(all, totalCase{rtype: t, text: text, shape: "corpus-mutation"})
		}
	}
	for i := 0; i < *random; i++ {
		n := rng.Intn(200)
		b := make([]byte, n)
		rng.Read(b)
		text := string(b)
		if rng.Intn(2) == 0 {
			text = hdr + text
		}
		all = append(all, totalCase{rtype: []int{1300, 1306, 1309, 1400, 1302, 1327, rng.Intn(65536)}[rng.Intn(7)], text: text, shape: "random-bytes"})
	}

	w := newNDWriter(*out)
	w.write(map[string]interface{}{"k": "meta", "family": "parse"})
	stats := map[string]int{"corpus_lines": len(corpus)}
	// The inputs run in a child process: an unbounded recursion ends a Go process with a fatal error no
	// recover() sees, and a spinning goroutine cannot be stopped.  The child announces each input before it
	// runs it; when the child dies or stalls, the announced input is the one that did it (ret "crash" / "hang"),
	// and one such input settles the verdict: the remaining ones are not run.
	self, err := os.Executable()
	if err != nil {
		fatal("os.Executable: %v", err)
	}
	cmd := exec.Command(self, "parse-total-child")
	stdin, _ := cmd.StdinPipe()
	stdout, _ := cmd.StdoutPipe()
	var stderr bytes.Buffer
	cmd.Stderr = &stderr
	if err := cmd.Start(); err != nil {
		fatal("cannot start the child: %v", err)
	}
	go func() {
		enc := json.NewEncoder(stdin)
		for i, c := range all {
			enc.Encode(map[string]interface{}{"i": i, "rtype": c.rtype, "text": bytesOfS(c.text), "name": c.name, "line": bytesOfS(c.line)})
		}
		stdin.Close()
	}()
	lines := make(chan string, 64)
	go func() {
		sc := bufio.NewScanner(stdout)
		sc.Buffer(make([]byte, 1<<20), 1<<26)
		for sc.Scan() {
			lines <- sc.Text()
		}
		close(lines)
	}()
	next, announced := 0, -1
	emit := func(i int, ret string, same bool, detail string) {
		c := all[i]
		rec := map[string]interface{}{"k": "ptotal", "trace": i + 1, "shape": c.shape, "rtype": c.rtype, "ret": ret, "same": same}
		if ret != "ok" && ret != "err" || !same || i%500 == 0 {
			rec["text"] = bytesOfS(c.text + c.line)
			rec["name"] = c.name
		}
		if detail != "" {
			rec["detail"] = detail
		}
		w.write(rec)
		stats["inputs"]++
		stats["ret_"+ret]++
	}
	ended := ""
loop:
	for next < len(all) {
		select {
		case l, ok := <-lines:
			if !ok {
				ended = "crash"
				break loop
			}
			var m struct {
				Start *int   `json:"start"`
				I     int    `json:"i"`
				Ret   string `json:"ret"`
				Same  bool   `json:"same"`
			}
			if json.Unmarshal([]byte(l), &m) != nil {
				continue
			}
			if m.Start != nil {
				announced = *m.Start
				continue
			}
			emit(m.I, m.Ret, m.Same, "")
			next = m.I + 1
		case <-time.After(20 * time.Second):
			ended = "hang"
			break loop
		}
	}
	if ended != "" {
		cmd.Process.Kill()
	}
	cmd.Wait()
	if ended != "" {
		if announced != next {
			fatal("the child ended (%s) outside an announced input (announced %d, next %d): %s", ended, announced, next, tailOf(stderr.String(), 2000))
		}
		detail := ""
		if ended == "crash" {
			detail = headOf(stderr.String(), 600)
			if !strings.Contains(detail, "fatal error") && !strings.Contains(detail, "stack") && !strings.Contains(detail, "panic") {
				fatal("the child died without a Go runtime error on input %d: %s", next, tailOf(stderr.String(), 2000))
			}
		}
		emit(next, ended, false, detail)
		stats["not_run_after_"+ended] = len(all) - next - 1
	}
	w.close()
	printJSON(map[string]interface{}{"stats": stats})
	return 0
}

func headOf(s string, n int) string {
	if len(s) > n {
		return s[:n]
	}
	return s
}

func tailOf(s string, n int) string {
	if len(s) > n {
		return s[len(s)-n:]
	}
	return s
}

// parse-total-child: runs the inputs given on stdin, announcing each one first.
func parseTotalChild(args []string) int {
	debug.SetMaxStack(64 << 20) // a runaway recursion ends quickly
	in := bufio.NewScanner(os.Stdin)
	in.Buffer(make([]byte, 1<<20), 1<<26)
	out := bufio.NewWriter(os.Stdout)
	for in.Scan() {
		var c struct {
			I     int    `json:"i"`
			Rtype int    `json:"rtype"`
			Text  []int  `json:"text"`
			Name  string `json:"name"`
			Line  []int  `json:"line"`
		}
		if err := json.Unmarshal(in.Bytes(), &c); err != nil {
			continue
		}
		fmt.Fprintf(out, "{\"start\":%d}\n", c.I)
		out.Flush()
		ret, same := runTotal(totalCase{rtype: c.Rtype, text: string(toBytes(c.Text)), name: c.Name, line: string(toBytes(c.Line))})
		fmt.Fprintf(out, "{\"i\":%d,\"ret\":%q,\"same\":%v}\n", c.I, ret, same)
		out.Flush()
	}
	return 0
}

func init() {
	register("parse-header", parseHeaderCmd)
	register("parse-fields", parseFieldsCmd)
	register("parse-total", parseTotalCmd)
	register("parse-total-child", parseTotalChild)
}
