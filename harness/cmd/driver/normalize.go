package main

// normalize-run: the coalescer's normalisation step against spec/normalize/Normalize.tla
// (beyond the listed properties, DESIGN.md section 10).  The table is read from
// normalizations.yaml with a generic YAML decoder - not with the library's loader - and written
// to the trace as "norm" records; every generated event follows as a "nev" record holding what
// each input record reports (Data) and what CoalesceMessages made of them.

import (
	"encoding/json"
	"flag"
	"fmt"
	"math/rand"
	"os"
	"path/filepath"
	"sort"
	"strconv"
	"strings"
	"time"

	"gopkg.in/yaml.v3"

	"github.com/elastic/go-libaudit/v2/aucoalesce"
	"github.com/elastic/go-libaudit/v2/auparse"
)

type normEntry struct {
	rec         map[string]interface{}
	recordTypes []string
	syscalls    []string
	keys        []string // every field name the entry looks for
}

func yamlStrings(v interface{}) []string {
	switch x := v.(type) {
	case nil:
		return []string{}
	case string:
		return []string{x}
	case []interface{}:
		out := []string{}
		for _, e := range x {
			out = append(out, fmt.Sprint(e))
		}
		return out
	}
	return []string{fmt.Sprint(v)}
}

func loadNormTable(repo string) []normEntry {
	data, err := os.ReadFile(filepath.Join(repo, "aucoalesce", "normalizations.yaml"))
	if err != nil {
		fatal("normalizations.yaml: %v", err)
	}
	var doc struct {
		Normalizations []map[string]interface{} `yaml:"normalizations"`
	}
	if err := yaml.Unmarshal(data, &doc); err != nil {
		fatal("normalizations.yaml: %v", err)
	}
	var out []normEntry
	for i, n := range doc.Normalizations {
		str := func(k string) string {
			if v, ok := n[k]; ok && v != nil {
				return fmt.Sprint(v)
			}
			return ""
		}
		idx := 0
		if v, ok := n["object_path_index"]; ok {
			idx, _ = strconv.Atoi(fmt.Sprint(v))
		}
		e := normEntry{recordTypes: yamlStrings(n["record_types"]), syscalls: yamlStrings(n["syscalls"])}
		rec := map[string]interface{}{"k": "norm", "idx": i + 1, "action": str("action"), "object_what": str("object_what"), "object_path_index": idx,
			"record_types": e.recordTypes, "syscalls": e.syscalls}
		for _, k := range []string{"subject_primary", "subject_secondary", "object_primary", "object_secondary", "how", "source_ip", "has_fields"} {
			l := yamlStrings(n[k])
			rec[k] = l
			e.keys = append(e.keys, l...)
		}
		kind, cat, typ := "", []string{}, []string{}
		maps := []interface{}{}
		if ecs, ok := n["ecs"].(map[string]interface{}); ok {
			if v, ok := ecs["kind"]; ok && v != nil {
				kind = fmt.Sprint(v)
			}
			cat, typ = yamlStrings(ecs["category"]), yamlStrings(ecs["type"])
			if ml, ok := ecs["mappings"].([]interface{}); ok {
				for _, m := range ml {
					mm, _ := m.(map[string]interface{})
					from, to := fmt.Sprint(mm["from"]), fmt.Sprint(mm["to"])
					fr := map[string]string{"dict": "field", "key": from}
					if strings.HasPrefix(from, "data.") {
						fr = map[string]string{"dict": "data", "key": from[5:]}
						e.keys = append(e.keys, from[5:])
					} else if strings.HasPrefix(from, "uid.") {
						fr = map[string]string{"dict": "uid", "key": from[4:]}
						e.keys = append(e.keys, from[4:])
					}
					maps = append(maps, map[string]interface{}{"from": fr, "to": to})
				}
			}
		}
		rec["kind"], rec["category"], rec["etype"], rec["mappings"] = kind, cat, typ, maps
		e.rec = rec
		out = append(out, e)
	}
	return out
}

// the key classification Normalize.tla lists (strings are opaque to TLC)
var nzIDKeys = map[string]bool{"uid": true, "auid": true, "euid": true, "suid": true, "fsuid": true, "gid": true, "egid": true, "sgid": true,
	"fsgid": true, "ouid": true, "ogid": true, "obj_uid": true, "obj_gid": true, "old-auid": true, "oauid": true, "sauid": true, "iuid": true,
	"igid": true, "new_gid": true, "new-auid": true, "old_auid": true, "new_auid": true}
var nzSubjKeys = map[string]bool{"subj_user": true, "subj_role": true, "subj_domain": true, "subj_level": true, "subj_category": true, "subj": true}

func nzClassifiable(k string) bool {
	if strings.HasSuffix(k, "uid") || strings.HasSuffix(k, "gid") {
		return nzIDKeys[k]
	}
	if strings.HasPrefix(k, "subj_") {
		return nzSubjKeys[k]
	}
	return true
}

func resolveKeyKnown(k string) bool {
	switch k {
	case "uid", "auid", "euid", "suid", "fsuid", "ouid", "obj_uid", "old-auid", "old_auid", "new-auid", "new_auid", "oauid", "sauid", "iuid",
		"gid", "egid", "sgid", "fsgid", "ogid", "obj_gid", "new_gid", "igid":
		return true
	}
	return false
}

func nzWord(r *rand.Rand) string {
	const cs = "ghijklmnopqrstuvwxyz" // no hex digits: such values are never taken for hex-encoded strings
	n := 2 + r.Intn(7)
	b := make([]byte, n)
	for i := range b {
		b[i] = cs[r.Intn(len(cs))]
	}
	return string(b)
}

// nzValue: a value for a field of a user-space record
func nzValue(r *rand.Rand, key string) string {
	switch {
	case key == "addr" || key == "laddr":
		if r.Intn(3) == 0 {
			return nzWord(r)
		}
		return fmt.Sprintf("%d.%d.%d.%d", 1+r.Intn(250), r.Intn(256), r.Intn(256), 1+r.Intn(250))
	case key == "exe":
		if r.Intn(4) == 0 {
			return `"` + []string{"/usr/bin/python3", "/usr/bin/sh", "/usr/bin/bash", "/usr/bin/perl5"}[r.Intn(4)] + `"`
		}
		return `"/usr/sbin/` + nzWord(r) + `"`
	case key == "id" || key == "new_gid" || key == "old-auid" || key == "ouid" || key == "ogid" || strings.HasSuffix(key, "uid") || strings.HasSuffix(key, "gid"):
		return []string{"0", "1000", "1001", "5", "60", "4294967295", "-1", strconv.Itoa(r.Intn(60000))}[r.Intn(8)]
	case key == "acct" && r.Intn(2) == 0:
		return `"` + []string{"root", "toor", "alice", "al", "bob", "games", "nobodyknows"}[r.Intn(7)] + `"`
	case key == "acct" || key == "terminal" || key == "hostname" || key == "grp" || key == "comm" || key == "cmd" || key == "name" || key == "path" || key == "unit":
		return `"` + nzWord(r) + `"`
	}
	if r.Intn(5) == 0 {
		return strconv.Itoa(r.Intn(100000))
	}
	return nzWord(r)
}

func nzID(r *rand.Rand) int {
	if r.Intn(2) == 0 {
		return []int{0, 1000, 1001, 5, 60}[r.Intn(5)]
	}
	return r.Intn(2000)
}

func nzUserBody(r *rand.Rand, keys []string) string {
	var sb strings.Builder
	fmt.Fprintf(&sb, "pid=%d", 1+r.Intn(30000))
	if r.Intn(8) != 0 {
		fmt.Fprintf(&sb, " uid=%d", []int{0, 1000, 1001, 5, r.Intn(60000)}[r.Intn(5)])
	}
	if r.Intn(5) != 0 {
		fmt.Fprintf(&sb, " auid=%s", []string{"0", "1000", "4294967295", strconv.Itoa(r.Intn(60000))}[r.Intn(4)])
	}
	fmt.Fprintf(&sb, " ses=%d", 1+r.Intn(500))
	if r.Intn(2) == 0 {
		sb.WriteString(" subj=system_u:system_r:sshd_t:s0-s0:c0.c1023")
	}
	sb.WriteString(" msg='")
	first := true
	for _, k := range keys {
		if k == "pid" || k == "uid" || k == "auid" || k == "ses" || k == "subj" || k == "res" || k == "result" || k == "msg" || r.Intn(2) == 0 {
			continue
		}
		if !first {
			sb.WriteString(" ")
		}
		first = false
		fmt.Fprintf(&sb, "%s=%s", k, nzValue(r, k))
	}
	if r.Intn(6) != 0 {
		if !first {
			sb.WriteString(" ")
		}
		sb.WriteString("res=" + []string{"success", "failed"}[r.Intn(2)])
	}
	sb.WriteString("'")
	return sb.String()
}

func normalizeRunCmd(args []string) int {
	fs := flag.NewFlagSet("normalize-run", flag.ExitOnError)
	outPrefix := fs.String("out-prefix", "", "trace files <prefix><shard>.ndjson, each beginning with the table")
	shards := fs.Int("shards", 4, "trace files")
	seed := fs.Int64("seed", 1, "seed")
	reps := fs.Int("reps", 3, "events per (entry, record type or syscall, shape)")
	repo := fs.String("repo", "/repo", "repository root")
	resolveOut := fs.String("resolve-out", "", "also resolve the ids of every event over an injected user/group database and write res records here (Resolve.tla)")
	fs.Parse(args)
	rng := newRand(*seed, 31)
	// the databases behind the caches (verif hook); aliases and unknown ids included
	dbU := map[string]string{"0": "root", "1000": "alice", "1001": "bob", "5": "games"}
	dbUn := map[string]string{"root": "0", "toor": "0", "alice": "1000", "al": "1000", "bob": "1001", "games": "5"}
	dbG := map[string]string{"0": "root", "1000": "staff", "60": "games"}
	dbGn := map[string]string{"root": "0", "wheel": "0", "staff": "1000", "games": "60"}
	var rw *ndWriter
	var users, groups *aucoalesce.EntityCache
	if *resolveOut != "" {
		rw = newNDWriter(*resolveOut)
		rw.write(map[string]interface{}{"k": "meta", "family": "resolve"})
		rw.write(map[string]interface{}{"k": "db", "users": map[string]interface{}{"by_id": dbU, "by_name": dbUn},
			"groups": map[string]interface{}{"by_id": dbG, "by_name": dbGn}})
		users = aucoalesce.VerifNewEntityCache(time.Hour, func(k string) string { return dbU[k] }, func(k string) string { return dbUn[k] })
		groups = aucoalesce.VerifNewEntityCache(time.Hour, func(k string) string { return dbG[k] }, func(k string) string { return dbGn[k] })
	}
	table := loadNormTable(*repo)
	ws := make([]*ndWriter, *shards)
	for i := range ws {
		ws[i] = newNDWriter(fmt.Sprintf("%s%d.ndjson", *outPrefix, i))
		ws[i].write(map[string]interface{}{"k": "meta", "family": "normalize"})
		for _, e := range table {
			ws[i].write(e.rec)
		}
	}
	stats := map[string]int{"table_entries": len(table)}

	// field names any entry looks for, plus common ones
	pool := map[string]bool{}
	for _, e := range table {
		for _, k := range e.keys {
			pool[k] = true
		}
	}
	for _, k := range []string{"acct", "exe", "terminal", "hostname", "addr", "op", "id", "grp", "comm", "unit", "cmd", "name", "old-auid", "new_gid"} {
		pool[k] = true
	}
	var poolKeys []string
	for k := range pool {
		if !nzClassifiable(k) {
			fatal("field %q named by the table cannot be classified by Normalize.tla's key sets: extend IdKeys/SubjKeys", k)
		}
		if strings.ContainsAny(k, " ='\"") || strings.HasPrefix(k, "socket_") || k == "syscall" || k == "items" || k == "argc" {
			continue
		}
		poolKeys = append(poolKeys, k)
	}
	sort.Strings(poolKeys)

	sysNum := map[string][2]string{} // name -> arch (hex), number
	for _, a := range [][2]string{{"x86_64", "c000003e"}, {"i386", "40000003"}} {
		for num, name := range auparse.AuditSyscalls[a[0]] {
			if _, ok := sysNum[name]; !ok {
				sysNum[name] = [2]string{a[1], strconv.Itoa(num)}
			}
		}
	}

	keysFor := func(e normEntry) []string {
		ks := append([]string{}, e.keys...)
		for i := 0; i < 4; i++ {
			ks = append(ks, poolKeys[rng.Intn(len(poolKeys))])
		}
		seen := map[string]bool{}
		var out []string
		for _, k := range ks {
			if !seen[k] && !strings.HasPrefix(k, "socket_") && k != "syscall" && !strings.ContainsAny(k, " ='\"") {
				seen[k] = true
				out = append(out, k)
			}
		}
		rng.Shuffle(len(out), func(i, j int) { out[i], out[j] = out[j], out[i] })
		return out
	}

	syscallRec := func(name string, items int) recSpec {
		an, ok := sysNum[name]
		if !ok {
			an = [2]string{"c000003e", strconv.Itoa(900 + rng.Intn(90))} // a number without a name: the default entry
		}
		succ, exit := "yes", "0"
		if rng.Intn(3) == 0 {
			succ, exit = "no", "-13"
		}
		exe := "/usr/bin/" + nzWord(rng)
		if rng.Intn(4) == 0 {
			exe = []string{"/usr/bin/python3.9", "/usr/bin/sh", "/usr/bin/bash", "/usr/bin/perl"}[rng.Intn(4)]
		}
		body := fmt.Sprintf(`arch=%s syscall=%s success=%s exit=%s a0=%x a1=%x a2=%x a3=%x items=%d ppid=%d pid=%d auid=%s uid=%d gid=%d euid=%d suid=%d fsuid=%d egid=%d sgid=%d fsgid=%d tty=pts0 ses=%d`,
			an[0], an[1], succ, exit, rng.Intn(1<<20), rng.Intn(1<<20), rng.Intn(1<<20), rng.Intn(1<<20), items, 1+rng.Intn(30000), 1+rng.Intn(30000),
			[]string{"0", "1000", "4294967295"}[rng.Intn(3)], nzID(rng), nzID(rng), nzID(rng), nzID(rng), nzID(rng), nzID(rng), nzID(rng), nzID(rng), 1+rng.Intn(500))
		if rng.Intn(6) != 0 {
			body += fmt.Sprintf(` comm="%s"`, nzWord(rng))
		}
		body += fmt.Sprintf(` exe="%s"`, exe) // the parser refuses a SYSCALL record without exe
		body += ` subj=u_x:r_y:t_z:s0 key=(null)`
		return recSpec{1300, body}
	}
	pathRec := func(item int) recSpec {
		nt := []string{"NORMAL", "PARENT", "CREATE", "DELETE", "UNKNOWN", ""}[rng.Intn(6)]
		b := fmt.Sprintf(`item=%d`, item)
		if rng.Intn(8) != 0 {
			b += fmt.Sprintf(` name="/%s/%s"`, nzWord(rng), nzWord(rng))
		}
		b += fmt.Sprintf(` inode=%d dev=08:01 mode=0100644 ouid=%d ogid=%d rdev=00:00`, 1+rng.Intn(100000), nzID(rng), nzID(rng))
		if nt != "" {
			b += " nametype=" + nt
		}
		return recSpec{1302, b}
	}
	sockRec := func() recSpec {
		raw := []byte{2, 0, byte(rng.Intn(256)), byte(rng.Intn(256)), byte(1 + rng.Intn(250)), byte(rng.Intn(256)), byte(rng.Intn(256)), byte(1 + rng.Intn(250)), 0, 0, 0, 0, 0, 0, 0, 0}
		if rng.Intn(3) == 0 {
			raw = append([]byte{1, 0}, []byte("/run/"+nzWord(rng)+"\x00")...)
		}
		return recSpec{1306, "saddr=" + strings.ToUpper(fmt.Sprintf("%x", raw))}
	}

	trace := 0
	emit := func(specs []recSpec, shape string) {
		trace++
		msgs := mkMsgs(specs, 1490137971, 11, uint32(trace))
		if len(msgs) != len(specs) {
			fatal("a generated record did not parse: %v", specs)
		}
		recs := []interface{}{}
		nums := map[string]bool{}
		datas := make([]map[string]string, len(msgs))
		for i, m := range msgs {
			d, err := m.Data()
			if err != nil {
				stats["skipped_record_type_needs_other_fields"]++ // e.g. TTY records must carry data=
				trace--
				return
			}
			cp := map[string]string{}
			for k, v := range d {
				if !nzClassifiable(k) {
					fatal("generated key %q cannot be classified", k)
				}
				cp[k] = v
				if _, err := strconv.ParseUint(v, 10, 64); err == nil {
					nums[v] = true
				}
			}
			datas[i] = cp
			recs = append(recs, map[string]interface{}{"type": m.RecordType.String(), "data": cp})
		}
		// whether the exe the event ends up with names an interpreter (strings are opaque to TLC): the
		// primary record's fields come first, then the other records' in order, first writer wins
		order := []int{}
		for i, m := range msgs {
			if len(msgs) == 1 || m.RecordType == auparse.AUDIT_SYSCALL {
				order = append(order, i)
				break
			}
		}
		for i, m := range msgs {
			switch m.RecordType {
			case auparse.AUDIT_SYSCALL, auparse.AUDIT_PATH, auparse.AUDIT_SOCKADDR, auparse.AUDIT_EXECVE:
			default:
				if len(msgs) > 1 {
					order = append(order, i)
				}
			}
		}
		find := func(k string) (string, bool) {
			for _, i := range order {
				if v, ok := datas[i][k]; ok {
					return v, true
				}
			}
			return "", false
		}
		exe, ok := find("exe")
		if !ok {
			exe, _ = find("comm")
		}
		interp := false
		for _, p := range []string{"/usr/bin/python", "/usr/bin/sh", "/usr/bin/bash", "/usr/bin/perl"} {
			interp = interp || strings.HasPrefix(exe, p)
		}
		ev, err := aucoalesce.CoalesceMessages(msgs)
		if err != nil || ev == nil {
			fatal("CoalesceMessages refused a generated group: %v", err)
		}
		ent := func(e aucoalesce.ECSEntityData) map[string]string { return map[string]string{"id": e.ID, "name": e.Name} }
		orEmpty := func(l []string) []string {
			if l == nil {
				return []string{}
			}
			return l
		}
		warn := map[string]bool{"nonorm": false, "subjP": false, "subjS": false, "objP": false, "objS": false, "how": false, "srcip": false}
		for _, w := range ev.Warnings {
			t := w.Error()
			switch {
			case strings.HasPrefix(t, "no normalization found"):
				warn["nonorm"] = true
			case strings.HasPrefix(t, "failed to set subject primary using"):
				warn["subjP"] = true
			case strings.HasPrefix(t, "failed to set subject secondary using"):
				warn["subjS"] = true
			case strings.HasPrefix(t, "failed to set object primary using"):
				warn["objP"] = true
			case strings.HasPrefix(t, "failed to set object secondary using"):
				warn["objS"] = true
			case strings.HasPrefix(t, "failed to set how using"):
				warn["how"] = true
			case strings.HasPrefix(t, "failed to set source IP using"):
				warn["srcip"] = true
			}
		}
		got := map[string]interface{}{"action": ev.Summary.Action, "kind": ev.ECS.Event.Kind, "category": orEmpty(ev.ECS.Event.Category),
			"etype": orEmpty(ev.ECS.Event.Type), "outcome": ev.ECS.Event.Outcome,
			"actor_primary": ev.Summary.Actor.Primary, "actor_secondary": ev.Summary.Actor.Secondary,
			"object_type": ev.Summary.Object.Type, "object_primary": ev.Summary.Object.Primary, "object_secondary": ev.Summary.Object.Secondary,
			"how": ev.Summary.How, "has_source": ev.Source != nil, "source_ip": "",
			"ecs": map[string]interface{}{"user": ent(ev.ECS.User.ECSEntityData), "effective": ent(ev.ECS.User.Effective), "target": ent(ev.ECS.User.Target),
				"changes": ent(ev.ECS.User.Changes), "group": ent(ev.ECS.Group)},
			"warn": warn}
		if ev.Source != nil {
			got["source_ip"] = ev.Source.IP
		}
		numl := []string{}
		for v := range nums {
			numl = append(numl, v)
		}
		sort.Strings(numl)
		df := map[string]string{}
		for k, v := range ev.Data {
			df[k] = v
		}
		ws[trace%len(ws)].write(map[string]interface{}{"k": "nev", "trace": trace, "shape": shape, "recs": recs, "interp": interp, "numerics": numl,
			"data_final": df, "got": got})
		if rw != nil {
			snap := func() (map[string]interface{}, string) {
				ids := map[string]string{}
				for k, v := range ev.User.IDs {
					if !resolveKeyKnown(k) {
						fatal("User.IDs key %q is in neither key set of Resolve.tla", k)
					}
					ids[k] = v
				}
				names := map[string]string{}
				for k, v := range ev.User.Names {
					names[k] = v
				}
				o := map[string]interface{}{"actor_primary": ev.Summary.Actor.Primary, "actor_secondary": ev.Summary.Actor.Secondary, "ids": ids, "names": names,
					"has_file": ev.File != nil, "file_uid": "", "file_gid": "", "file_owner": "", "file_group": "",
					"ecs": map[string]interface{}{"user": ent(ev.ECS.User.ECSEntityData), "effective": ent(ev.ECS.User.Effective), "target": ent(ev.ECS.User.Target),
						"changes": ent(ev.ECS.User.Changes), "group": ent(ev.ECS.Group)}}
				if ev.File != nil {
					o["file_uid"], o["file_gid"], o["file_owner"], o["file_group"] = ev.File.UID, ev.File.GID, ev.File.Owner, ev.File.Group
				}
				// everything ResolveIDs has no business with
				b, _ := json.Marshal(ev)
				var rest map[string]interface{}
				json.Unmarshal(b, &rest)
				delete(rest, "ecs")
				if sm, ok := rest["summary"].(map[string]interface{}); ok {
					delete(sm, "actor")
				}
				if um, ok := rest["user"].(map[string]interface{}); ok {
					delete(um, "names")
				}
				if fm, ok := rest["file"].(map[string]interface{}); ok {
					delete(fm, "owner")
					delete(fm, "group")
				}
				rb, _ := json.Marshal(rest)
				return o, string(rb)
			}
			before, rest1 := snap()
			aucoalesce.ResolveIDsFromCaches(ev, users, groups)
			after, rest2 := snap()
			rw.write(map[string]interface{}{"k": "res", "trace": trace, "before": before, "after": after, "unchanged": rest1 == rest2})
			stats["resolved"]++
		}
		stats["events"]++
		stats["shape_"+shape]++
	}

	var typedEntries []string // record types that have an entry
	for _, e := range table {
		typedEntries = append(typedEntries, e.recordTypes...)
	}
	for _, e := range table {
		for _, rt := range e.recordTypes {
			t, err := auparse.GetAuditMessageType(rt)
			if err != nil {
				stats["record_types_unknown_to_the_parser"]++
				continue
			}
			for i := 0; i < *reps; i++ {
				emit([]recSpec{{int(t), nzUserBody(rng, keysFor(e))}}, "single")
				// the record ahead of a SYSCALL record: its entry, followed by the syscall's categorisation
				names := []string{"open", "execve", "connect", "setuid", "kill", "nosuchcall"}
				emit([]recSpec{{int(t), nzUserBody(rng, keysFor(e))}, syscallRec(names[rng.Intn(len(names))], 0)}, "special-first")
			}
		}
		for _, sc := range e.syscalls {
			for i := 0; i < *reps; i++ {
				np := rng.Intn(5)
				specs := []recSpec{syscallRec(sc, np)}
				for p := 0; p < np; p++ {
					specs = append(specs, pathRec(p))
				}
				if rng.Intn(2) == 0 {
					specs = append(specs, sockRec())
				}
				if rng.Intn(2) == 0 {
					specs = append(specs, recSpec{1307, `cwd="/` + nzWord(rng) + `"`})
				}
				rest := specs[1:]
				rng.Shuffle(len(rest), func(i, j int) { rest[i], rest[j] = rest[j], rest[i] })
				if len(specs) == 1 {
					specs = append(specs, recSpec{1320, ""}) // a lone SYSCALL record with its EOE
					emit(specs[:1], "syscall")
					continue
				}
				emit(specs, "syscall")
			}
		}
	}
	// record types without any entry
	for _, t := range []int{1006, 1305, 1326, 2000, 1334, 1800} {
		emit([]recSpec{{t, nzUserBody(rng, keysFor(table[rng.Intn(len(table))]))}}, "no-entry")
	}
	for _, w := range ws {
		w.close()
	}
	if rw != nil {
		rw.close()
	}
	printJSON(map[string]interface{}{"stats": stats})
	return 0
}

func init() { register("normalize-run", normalizeRunCmd) }
