package main

import (
	"bufio"
	"encoding/json"
	"fmt"
	"math/rand"
	"os"
	"strconv"
)

// U32 is a uint32 carried as two 16-bit limbs, because TLC's Json module wraps
// integers >= 2^31.
type U32 struct {
	Hi int `json:"hi"`
	Lo int `json:"lo"`
}

func limbs(v uint32) U32  { return U32{Hi: int(v >> 16), Lo: int(v & 0xffff)} }
func (u U32) val() uint32 { return uint32(u.Hi)<<16 | uint32(u.Lo) }
func digitsOf(s string) []int {
	d := make([]int, 0, len(s))
	for _, c := range s {
		d = append(d, int(c-'0'))
	}
	return d
}
func digitsU64(v uint64) []int { return digitsOf(strconv.FormatUint(v, 10)) }

// bytesOf renders a byte string as an int array (TLC turns non-ASCII JSON
// string content into '?', so bytes never travel as strings).
func bytesOf(b []byte) []int {
	out := make([]int, len(b))
	for i, c := range b {
		out[i] = int(c)
	}
	return out
}
func bytesOfS(s string) []int { return bytesOf([]byte(s)) }
func toBytes(a []int) []byte {
	out := make([]byte, len(a))
	for i, c := range a {
		out[i] = byte(c)
	}
	return out
}

// ndWriter writes one JSON value per line.
type ndWriter struct {
	f *os.File
	w *bufio.Writer
	n int
}

func newNDWriter(path string) *ndWriter {
	f, err := os.Create(path)
	if err != nil {
		fatal("create %s: %v", path, err)
	}
	return &ndWriter{f: f, w: bufio.NewWriterSize(f, 1<<20)}
}

func (w *ndWriter) write(v interface{}) {
	b, err := json.Marshal(v)
	if err != nil {
		fatal("marshal: %v", err)
	}
	w.w.Write(b)
	w.w.WriteByte('\n')
	w.n++
}

func (w *ndWriter) close() {
	w.w.Flush()
	w.f.Close()
}

func fatal(format string, a ...interface{}) {
	fmt.Fprintf(os.Stderr, "driver: "+format+"\n", a...)
	os.Exit(2)
}

// readND reads an ndjson file, calling f with each raw line.
func readND(path string, f func(line []byte)) {
	fh, err := os.Open(path)
	if err != nil {
		fatal("open %s: %v", path, err)
	}
	defer fh.Close()
	sc := bufio.NewScanner(fh)
	sc.Buffer(make([]byte, 1<<20), 1<<28)
	for sc.Scan() {
		if len(sc.Bytes()) == 0 {
			continue
		}
		f(sc.Bytes())
	}
	if err := sc.Err(); err != nil {
		fatal("read %s: %v", path, err)
	}
}

func newRand(seed int64, stream int64) *rand.Rand {
	return rand.New(rand.NewSource(seed*1000003 + stream))
}

func printJSON(v interface{}) {
	b, _ := json.Marshal(v)
	fmt.Println(string(b))
}
