package main

import (
	"bufio"
	"encoding/json"
	"flag"
	"fmt"
	"io"
	"math/rand"
	"os"
	"os/exec"
	"strconv"
	"strings"
	"time"

	"github.com/elastic/go-libaudit/v2/rule"
	"github.com/elastic/go-libaudit/v2/rule/flags"
)

// ---- C13: decode cases run in a child process (a runaway allocation must not kill the check) ----

type decodeCase struct {
	ID    int    `json:"id"`
	Cls   string `json:"cls"`
	Wire  []int  `json:"wire"`
	Descr string `json:"descr"`
}

// rule-decode-child: reads decodeCase lines on stdin; prints "START id" before and a JSON record after each.
func ruleDecodeChild(args []string) int {
	in := bufio.NewScanner(os.Stdin)
	in.Buffer(make([]byte, 1<<20), 1<<26)
	out := bufio.NewWriter(os.Stdout)
	for in.Scan() {
		var c decodeCase
		if err := json.Unmarshal(in.Bytes(), &c); err != nil {
			continue
		}
		fmt.Fprintf(out, "START %d\n", c.ID)
		out.Flush()
		wire := toBytes(c.Wire)
		ret, text := "", ""
		done := make(chan struct{})
		var kib int
		go func() {
			kib = allocKiB(func() { text, ret = toCmd(wire) })
			// the other mode of the exported function: ids resolved to names, and again (what was learnt - or not
			// found - the first time is used the second time)
			for k := 0; k < 2 && ret != "panic"; k++ {
				func() {
					defer func() {
						if p := recover(); p != nil {
							ret = "panic"
						}
					}()
					rule.ToCommandLine(rule.WireFormat(wire), true)
				}()
			}
			close(done)
		}()
		select {
		case <-done:
		case <-time.After(20 * time.Second):
			ret = "hang"
		}
		rec := map[string]interface{}{"k": "total", "trace": c.ID, "cls": c.Cls, "fn": "decode", "ret": ret, "alloc_kib": kib,
			"inlen": len(wire), "wire": []int{}, "descr": c.Descr}
		if ret == "ok" {
			rec["wire"] = c.Wire
			rec["text"] = text
		}
		b, _ := json.Marshal(rec)
		out.Write(b)
		out.WriteByte('\n')
		out.Flush()
		if ret == "hang" {
			return 3
		}
	}
	return 0
}

func boundaryValue(s string) uint32 {
	v, _ := strconv.ParseUint(s, 10, 64)
	return uint32(v)
}

// rule-total: C13 cases. Decode cases from TLC's (word, value) descriptors applied to base rules,
// truncations, random bytes; Build on hostile Rule structs; flags.Parse on hostile strings.
func ruleTotalCmd(args []string) int {
	fs := flag.NewFlagSet("rule-total", flag.ExitOnError)
	cases := fs.String("cases", "", "TLC case descriptors")
	out := fs.String("out", "", "trace ndjson")
	seed := fs.Int64("seed", 1, "seed")
	random := fs.Int("random", 200, "random inputs per function")
	memKiB := fs.Int("child-mem-kib", 12*1024*1024, "address-space limit of the decoding child")
	fs.Parse(args)
	env := newRuleEnv(*seed)
	defer env.close()
	rng := newRand(*seed, 13)
	w := newNDWriter(*out)
	w.write(map[string]interface{}{"k": "meta", "family": "rule"})
	stats := map[string]int{}

	// base rules
	baseLines := []string{
		"-a always,exit -F arch=b64 -S open,openat -F path=" + env.file + " -F subj_user=system_u -k k1 -k key2",
		"-w " + env.dir + " -p wa -k watchkey",
		"-a never,user -F uid=1000 -F msgtype=1100",
		"-a always,exit -S all -F exe=/usr/bin/true -F obj_type=etc_t -F a0&=0x80 -C auid!=obj_uid",
		// fields whose values the decoder turns into names (file types, ids, errnos, permissions, record types)
		"-a always,exit -F arch=b64 -S open -F filetype=file -F uid=0 -F gid=0 -F exit=-13 -F perm=rw -F auid>=1000 -F success=1 -F obj_uid=0 -F obj_gid=0",
		"-a always,exclude -F msgtype=USER_LOGIN -F pid=1 -F uid=0 -F gid=0",
	}
	{ // 64 fields
		parts := []string{"-a", "always,exit"}
		for i := 0; i < 63; i++ {
			parts = append(parts, "-F", fmt.Sprintf("a%d=%d", i%4, i))
		}
		parts = append(parts, "-k", "full")
		baseLines = append(baseLines, shellQuote(parts))
	}
	var bases [][]byte
	for _, l := range baseLines {
		o := parseAndBuild(l)
		if o.ret != "ok" {
			fatal("base rule does not build: %s: %s", l, o.err)
		}
		bases = append(bases, o.wire)
	}

	var dcases []decodeCase
	id := 0
	addCase := func(cls, descr string, wire []byte) {
		id++
		dcases = append(dcases, decodeCase{ID: id, Cls: cls, Wire: bytesOf(wire), Descr: descr})
	}
	if *cases != "" {
		readND(*cases, func(line []byte) {
			var c map[string]interface{}
			json.Unmarshal(line, &c)
			if c["c"] != "decode" {
				return
			}
			word := int(c["word"].(float64))
			val := boundaryValue(c["value"].(string))
			for bi, b := range bases {
				m := append([]byte(nil), b...)
				le32(m[4*(word-1):], val)
				region := "other"
				switch {
				case word == 3:
					region = "field_count"
				case word == 260:
					region = "buflen"
				case word >= 132 && word <= 195:
					region = "values"
				case word >= 68 && word <= 131:
					region = "fields"
				}
				addCase("decode:"+region, fmt.Sprintf("base %d word %d = %d", bi, word, val), m)
			}
		})
	}
	for _, b := range bases[:2] {
		for n := 0; n <= len(b); n += 1 + rng.Intn(3) {
			addCase("decode:truncated", fmt.Sprintf("truncated to %d bytes", n), b[:n])
		}
	}
	for i := 0; i < *random; i++ {
		n := rng.Intn(1300)
		b := make([]byte, n)
		rng.Read(b)
		if n >= 1040 && rng.Intn(2) == 0 { // plausible counts, random rest
			le32(b[8:], uint32(rng.Intn(70)))
			le32(b[1036:], uint32(rng.Intn(n-1039)))
		}
		addCase("decode:random", "random bytes", b)
	}
	// two string lengths that wrap around uint32
	{
		m := append([]byte(nil), bases[0]...)
		// values of the string fields: find them by the field codes 105 (path) and 13 (subj_user)
		for i := 0; i < 64; i++ {
			f := uint32(m[268+4*i]) | uint32(m[269+4*i])<<8
			if f == 13 {
				le32(m[524+4*i:], 0xFFFFFFFF)
			}
		}
		addCase("decode:wrap", "second string length 0xFFFFFFFF", m)
		m2 := append([]byte(nil), bases[0]...)
		for i := 0; i < 64; i++ {
			f := uint32(m2[268+4*i]) | uint32(m2[269+4*i])<<8
			if f == 13 {
				le32(m2[524+4*i:], 0xFFFFFFF0)
			}
		}
		addCase("decode:wrap", "second string length 0xFFFFFFF0", m2)
	}

	// run them in a child with an address-space limit; restart it after a crash
	self, _ := os.Executable()
	next := 0
	for next < len(dcases) {
		cmd := exec.Command("sh", "-c", fmt.Sprintf("ulimit -v %d; exec %q rule-decode-child", *memKiB, self))
		stdin, _ := cmd.StdinPipe()
		stdout, _ := cmd.StdoutPipe()
		cmd.Stderr = io.Discard
		if err := cmd.Start(); err != nil {
			fatal("cannot start the decoding child: %v", err)
		}
		go func(from int) {
			enc := json.NewEncoder(stdin)
			for _, c := range dcases[from:] {
				if enc.Encode(c) != nil {
					break
				}
			}
			stdin.Close()
		}(next)
		sc := bufio.NewScanner(stdout)
		sc.Buffer(make([]byte, 1<<20), 1<<26)
		started := -1
		for sc.Scan() {
			line := sc.Text()
			if strings.HasPrefix(line, "START ") {
				started, _ = strconv.Atoi(line[6:])
				continue
			}
			var rec map[string]interface{}
			if json.Unmarshal([]byte(line), &rec) == nil {
				w.write(rec)
				stats["decode_"+rec["ret"].(string)]++
				next = int(rec["trace"].(float64)) // ids are 1-based positions
				started = -1
			}
		}
		cmd.Wait()
		if started > 0 {
			// the child died while working on this case
			c := dcases[started-1]
			w.write(map[string]interface{}{"k": "total", "trace": c.ID, "cls": c.Cls, "fn": "decode", "ret": "crash", "alloc_kib": 0,
				"inlen": len(c.Wire), "wire": []int{}, "descr": c.Descr})
			stats["decode_crash"]++
			next = started
		} else if next < len(dcases) && started == -1 && cmd.ProcessState != nil && !cmd.ProcessState.Success() {
			next++ // defensive: never loop forever
		}
	}

	// ---- Build on hostile Rule values -----------------------------------------------------------
	trace := 1000000
	buildHung := false
	buildCase := func(cls string, r rule.Rule, descr string) {
		if buildHung { // one call that never returned is the observation; what it left behind stalls the calls after it
			stats["build_skipped_after_hang"]++
			return
		}
		trace++
		ret := "ok"
		var kib int
		done := make(chan struct{})
		go func() {
			defer close(done)
			kib = allocKiB(func() {
				defer func() {
					if p := recover(); p != nil {
						ret = "panic"
					}
				}()
				if _, err := rule.Build(r); err != nil {
					ret = "err"
				}
			})
		}()
		select {
		case <-done:
		case <-time.After(20 * time.Second):
			ret = "hang"
			buildHung = true
		}
		w.write(map[string]interface{}{"k": "total", "trace": trace, "cls": cls, "fn": "build", "ret": ret, "alloc_kib": kib,
			"inlen": len(descr), "wire": []int{}, "descr": descr})
		stats["build_"+ret]++
	}
	sysnums := []string{"-1", "0", "31", "32", "2047", "2048", "2049", "2063", "2079", "2080", "2111", "4095", "65536", "2147483647",
		"2147483648", "4294967295", "4294967296", "9999999999999", "99999999999999999999999", "0x10", "", " ", "all", "ALL", "open", "nosuchcall"}
	for _, s := range sysnums {
		for _, list := range []string{"exit", "task", "user", "exclude", "", "bogus"} {
			buildCase("build:sysnum", &rule.SyscallRule{Type: rule.AppendSyscallRuleType, List: list, Action: "always", Syscalls: []string{s}},
				"syscall "+s+" list "+list)
		}
	}
	for _, n := range []int{0, 1, 63, 64, 65, 66, 70, 200, 1000} {
		var fsx []rule.FilterSpec
		for i := 0; i < n; i++ {
			fsx = append(fsx, rule.FilterSpec{Type: rule.ValueFilterType, LHS: "pid", Comparator: "=", RHS: strconv.Itoa(i)})
		}
		buildCase("build:nfilters", &rule.SyscallRule{Type: rule.AppendSyscallRuleType, List: "exit", Action: "always", Filters: fsx, Keys: []string{"k"}},
			fmt.Sprintf("%d filters", n))
	}
	// names that reach the tables' parsers: record types (msgtype), users and groups, errnos (exit), file types
	for _, v := range []string{"][", "]x[", "UNKNOWN]1329[", "a]b[1]", "[", "]", "UNKNOWN[", "UNKNOWN[]", "UNKNOWN[-1]", "UNKNOWN[99999999999999999999]", "unknown[12]", "", " "} {
		for _, list := range []string{"user", "exclude", "exit"} {
			buildCase("build:names", &rule.SyscallRule{Type: rule.AppendSyscallRuleType, List: list, Action: "always",
				Filters: []rule.FilterSpec{{Type: rule.ValueFilterType, LHS: "msgtype", Comparator: "=", RHS: v}}}, "msgtype "+v)
		}
	}
	for _, f := range []string{"uid", "euid", "auid", "obj_uid", "gid", "egid", "sgid", "fsgid", "obj_gid"} {
		for _, v := range []string{"no_such_name_zz", "", " ", "root ", "-", "--1", "0x10", "1e3", "unset ", "💥"} {
			buildCase("build:names", &rule.SyscallRule{Type: rule.AppendSyscallRuleType, List: "exit", Action: "always",
				Filters: []rule.FilterSpec{{Type: rule.ValueFilterType, LHS: f, Comparator: "=", RHS: v}}}, f+" "+v)
		}
	}
	for _, v := range []string{"-ENOSUCH", "ENOSUCH", "-", "--EPERM", "-EPERM ", "EPERM-", "-0x", "- 1"} {
		buildCase("build:names", &rule.SyscallRule{Type: rule.AppendSyscallRuleType, List: "exit", Action: "always",
			Filters: []rule.FilterSpec{{Type: rule.ValueFilterType, LHS: "exit", Comparator: "=", RHS: v}}}, "exit "+v)
	}
	for _, v := range []string{"nosuchtype", "", "FILE", "file ", "0x", "-1"} {
		buildCase("build:names", &rule.SyscallRule{Type: rule.AppendSyscallRuleType, List: "exit", Action: "always",
			Filters: []rule.FilterSpec{{Type: rule.ValueFilterType, LHS: "filetype", Comparator: "=", RHS: v}}}, "filetype "+v)
	}
	junk := []string{"", " ", "=", "pid", "uid", "nosuch", "exit", "\x00", strings.Repeat("a", 5000), "-1", "unset", "0x", "💥", "][", "no_such_name_zz"}
	for i := 0; i < *random; i++ {
		pick := func() string { return junk[rng.Intn(len(junk))] }
		var r rule.Rule
		switch rng.Intn(4) {
		case 0:
			r = &rule.SyscallRule{Type: rule.Type(rng.Intn(6)), List: pick(), Action: pick(),
				Filters:  []rule.FilterSpec{{Type: rule.FilterType(rng.Intn(4)), LHS: pick(), Comparator: pick(), RHS: pick()}},
				Syscalls: []string{pick()}, Keys: []string{pick(), pick()}}
		case 1:
			r = &rule.FileWatchRule{Type: rule.FileWatchRuleType, Path: pick(), Permissions: []rule.AccessType{rule.AccessType(rng.Intn(7))}, Keys: []string{pick()}}
		case 2:
			r = &rule.DeleteAllRule{Type: rule.DeleteAllRuleType, Keys: []string{pick()}}
		default:
			fields := []string{"pid", "uid", "gid", "exit", "msgtype", "arch", "perm", "filetype", "path", "key", "a0", "inode", "saddr_fam", "success"}
			ops := []string{"=", "!=", "<", ">", "<=", ">=", "&", "&=", "==", ""}
			r = &rule.SyscallRule{Type: rule.AppendSyscallRuleType, List: []string{"exit", "task", "user", "exclude"}[rng.Intn(4)], Action: "always",
				Filters: []rule.FilterSpec{{Type: rule.ValueFilterType, LHS: fields[rng.Intn(len(fields))], Comparator: ops[rng.Intn(len(ops))], RHS: pick()}}}
		}
		buildCase("build:random", r, "random struct")
	}
	var nilRule rule.Rule
	buildCase("build:nil", nilRule, "nil rule")

	// ---- flags.Parse on hostile strings ------------------------------------------------------------
	parseCase := func(cls, line string) {
		trace++
		ret := "ok"
		kib := allocKiB(func() {
			defer func() {
				if p := recover(); p != nil {
					ret = "panic"
				}
			}()
			if _, err := flags.Parse(line); err != nil {
				ret = "err"
			}
		})
		w.write(map[string]interface{}{"k": "total", "trace": trace, "cls": cls, "fn": "parse", "ret": ret, "alloc_kib": kib,
			"inlen": len(line), "wire": []int{}, "descr": line})
		stats["parse_"+ret]++
	}
	hostile := []string{"", " ", "-", "--", "-a", "-a ,", "-a always", "-a always,exit,extra", "'", "\"", "\\", "-F", "-F =", "-F ==", "-F a=",
		"-S ,", "-k ,,,", "-w", "-w ''", "-p", "-p q", "-D -k", "-a always,exit -S", "-a always,exit -F 'a b c'", "-C", "-C a=b", "-C a<b",
		"-a always,exit -F uid=\x00", strings.Repeat("-F a=1 ", 500), "-a always,exit -S " + strings.Repeat("1,", 3000) + "1"}
	for _, h := range hostile {
		parseCase("parse:hostile", h)
	}
	alphabet := []string{"-a", "-A", "-F", "-C", "-S", "-k", "-w", "-p", "-D", "always,exit", "never,user", "uid=0", "a!=b", "open", "all",
		"'", "\"", "\\", " ", "=", ",", "x", "/tmp", "rwxa", "-", "--", "\t", "\n"}
	for i := 0; i < *random*5; i++ {
		var sb strings.Builder
		for j := rng.Intn(10); j >= 0; j-- {
			sb.WriteString(alphabet[rng.Intn(len(alphabet))])
			if rng.Intn(3) > 0 {
				sb.WriteByte(' ')
			}
		}
		parseCase("parse:random", sb.String())
	}
	w.close()
	printJSON(map[string]interface{}{"stats": stats, "decode_cases": len(dcases)})
	return 0
}

// ---- C14: flag lines from TLC's flag orders -------------------------------------------------------------

func accessNum(a rule.AccessType) int { return int(a) }

func describeRule(r rule.Rule) map[string]interface{} {
	out := map[string]interface{}{"type": "", "list": []int{}, "action": []int{}, "filters": []interface{}{}, "syscalls": [][]int{},
		"keys": [][]int{}, "path": []int{}, "perms": []int{}}
	bl := func(ss []string) [][]int {
		o := [][]int{}
		for _, s := range ss {
			o = append(o, bytesOfS(s))
		}
		return o
	}
	switch v := r.(type) {
	case *rule.DeleteAllRule:
		out["type"], out["keys"] = "delete", bl(v.Keys)
	case *rule.FileWatchRule:
		out["type"], out["keys"], out["path"] = "watch", bl(v.Keys), bytesOfS(v.Path)
		p := []int{}
		for _, a := range v.Permissions {
			p = append(p, accessNum(a))
		}
		out["perms"] = p
	case *rule.SyscallRule:
		out["type"] = "append"
		if v.Type == rule.PrependSyscallRuleType {
			out["type"] = "prepend"
		}
		out["list"], out["action"] = bytesOfS(v.List), bytesOfS(v.Action)
		out["syscalls"], out["keys"] = bl(v.Syscalls), bl(v.Keys)
		fl := []interface{}{}
		for _, f := range v.Filters {
			t := "F"
			if f.Type == rule.InterFieldFilterType {
				t = "C"
			}
			fl = append(fl, map[string]interface{}{"t": t, "lhs": bytesOfS(f.LHS), "op": bytesOfS(f.Comparator), "rhs": bytesOfS(f.RHS)})
		}
		out["filters"] = fl
	}
	return out
}

func flagValue(r *rand.Rand, letter string, env *ruleEnv) (string, string) {
	ops := []string{"=", "!=", "<", ">", "<=", ">=", "&", "&="}
	switch letter {
	case "a", "A":
		l := []string{"exit", "task", "user", "exclude"}[r.Intn(4)]
		a := []string{"always", "never"}[r.Intn(2)]
		switch r.Intn(8) {
		case 0: // half a value: a first -a/-A is refused for it, and a second one must be refused all the same
			return []string{l, a}[r.Intn(2)], "half-add"
		case 1, 2, 3:
			return l + "," + a, "plain"
		}
		return a + "," + l, "plain"
	case "F":
		field := []string{"pid", "uid", "path", "dir", "exe", "subj_user", "key", "a0", "exit", "obj_type", "arch", "msgtype"}[r.Intn(12)]
		op := ops[r.Intn(len(ops))]
		switch r.Intn(8) {
		case 0: // value with spaces
			return field + op + "/tmp/my dir/file name", "value-with-space"
		case 1: // value with operator characters and '=' signs
			return field + op + "a=b&c<=d", "value-with-operators"
		case 2: // junk before the field
			return "?? " + field + op + "1", "leading-junk"
		case 3:
			return field + op + env.word(1+r.Intn(30), true), "special"
		case 4:
			return field + op + "x y", "value-with-space"
		case 5: // characters that are blank to Unicode but not to the shell: they are part of the word
			return field + op + []string{"/tmp/x\r", "a\vb", "a\fb", "a\u00a0b", "a\u2028b", "\u00a0x", "x\u3000"}[r.Intn(7)], "unicode-blank"
		default:
			return field + op + strconv.Itoa(r.Intn(100000)), "plain"
		}
	case "C":
		pairs := [][2]string{{"auid", "obj_uid"}, {"uid", "euid"}, {"gid", "egid"}, {"euid", "fsuid"}}
		p := pairs[r.Intn(len(pairs))]
		op := []string{"=", "!="}[r.Intn(2)]
		switch r.Intn(6) {
		case 0:
			return "zz " + p[0] + op + p[1], "leading-junk"
		case 1:
			return p[0] + op + p[1] + " trailing", "trailing-junk"
		default:
			return p[0] + op + p[1], "plain"
		}
	case "S":
		if r.Intn(6) == 0 { // empty list elements are elements too
			return []string{"", "open,", ",open", "1,,2", ","}[r.Intn(5)], "empty-element"
		}
		return []string{"open", "all", "1,2,3", "open,close,read", "2047", "execve"}[r.Intn(6)], "plain"
	case "k":
		if r.Intn(5) == 0 {
			return "my key", "value-with-space"
		}
		if r.Intn(6) == 0 {
			return []string{"", "a,,b", "k,", ",k", ",,"}[r.Intn(5)], "empty-element"
		}
		return []string{"key1", "a,b", "k-" + strconv.Itoa(r.Intn(1000))}[r.Intn(3)], "plain"
	case "w":
		if r.Intn(4) == 0 {
			return "/tmp/dir with spaces/f", "value-with-space"
		}
		if r.Intn(6) == 0 {
			return "", "empty-value" // an empty argument is an argument: a second -w after it is a repeated -w
		}
		if r.Intn(5) == 0 { // a quoted path is the path, blanks at its edges included
			return []string{"/mnt/backup ", " /tmp", "/tmp\t", " ", "\u00a0/x\u00a0", "/var/log/x\n", "  /a b  ", "\t/etc/passwd"}[r.Intn(8)], "value-with-space"
		}
		return []string{"/etc/passwd", "/tmp", "/var/log/x.log", "/srv/a\u00a0b", "/var/log/a\vb"}[r.Intn(5)], "plain"
	case "p":
		return []string{"r", "w", "x", "a", "rw", "wa", "rwxa", "ar", "rwa", ""}[r.Intn(10)], "plain"
	}
	return "", "plain"
}

func ruleFlagsCmd(args []string) int {
	fs := flag.NewFlagSet("rule-flags", flag.ExitOnError)
	cases := fs.String("cases", "", "TLC case descriptors")
	out := fs.String("out", "", "trace ndjson")
	seed := fs.Int64("seed", 1, "seed")
	reps := fs.Int("reps", 1, "instantiations per case")
	fs.Parse(args)
	env := newRuleEnv(*seed)
	defer env.close()
	rng := newRand(*seed, 14)
	w := newNDWriter(*out)
	w.write(map[string]interface{}{"k": "meta", "family": "rule"})
	stats := map[string]int{}
	trace := 2000000
	readND(*cases, func(line []byte) {
		var c map[string]interface{}
		json.Unmarshal(line, &c)
		if c["c"] != "flags" {
			return
		}
		order, _ := c["order"].([]interface{})
		for rep := 0; rep < *reps; rep++ {
			var argv []string
			cls := "plain"
			for _, l := range order {
				letter := l.(string)
				switch letter {
				case "D":
					argv = append(argv, "-D")
				case "X":
					// an empty word is a word; a help flag is not an audit rule flag
				argv = append(argv, []string{"stray", "open", "uid=0", "/tmp", "", " ", "-h", "-help", "--help", "--h", "-x"}[rng.Intn(11)])
					cls = "positional"
				default:
					v, vc := flagValue(rng, letter, env)
					argv = append(argv, "-"+letter, v)
					if vc != "plain" && cls == "plain" {
						cls = vc
					}
				}
			}
			text := shellQuote(argv)
			// half of the lines that need no quoting by the splitter's own rules (it splits at blank, tab and
			// newline; quotes and backslash are its only special characters) are written bare
			bare := rng.Intn(2) == 0
			for _, a := range argv {
				if a == "" || strings.ContainsAny(a, " \t\n'\"\\") {
					bare = false
				}
			}
			if bare {
				text = strings.Join(argv, " ")
			} else if rng.Intn(3) == 0 {
				// the same words in double quotes, where a backslash quotes only $ ` " \ and newline and is an
				// ordinary character in front of anything else; one value gets such a backslash
				if i := rng.Intn(len(argv) + 1); i < len(argv) && len(argv[i]) > 1 && argv[i][0] != '-' && rng.Intn(2) == 0 {
					at := 1 + rng.Intn(len(argv[i])-1)
					if c := argv[i][at]; c != '$' && c != '`' && c != '"' && c != '\\' && c != '\n' && argv[i][at-1] != '\\' {
						argv[i] = argv[i][:at] + "\\" + argv[i][at:]
					}
				}
				text = dquote(argv)
			}
			trace++
			rec := map[string]interface{}{"k": "flags", "trace": trace, "cls": cls, "line": text, "ret": "err",
				"rule": describeRule(nil)}
			ab := [][]int{}
			for _, a := range argv {
				ab = append(ab, bytesOfS(a))
			}
			rec["args"] = ab
			func() {
				defer func() {
					if p := recover(); p != nil {
						rec["ret"] = "panic"
					}
				}()
				r, err := flags.Parse(text)
				if err == nil {
					rec["ret"] = "rule"
					rec["rule"] = describeRule(r)
				} else {
					rec["err"] = err.Error()
				}
			}()
			stats["flags_"+rec["ret"].(string)]++
			w.write(rec)
		}
	})
	w.close()
	printJSON(map[string]interface{}{"stats": stats})
	return 0
}

// dquote writes every word in double quotes as a POSIX shell reads them.
func dquote(args []string) string {
	var out []string
	for _, a := range args {
		var sb strings.Builder
		sb.WriteByte('"')
		for i := 0; i < len(a); i++ {
			c := a[i]
			switch c {
			case '"', '$', '`':
				sb.WriteByte('\\')
			case '\\':
				if i+1 == len(a) || strings.IndexByte("$`\"\\\n", a[i+1]) >= 0 {
					sb.WriteByte('\\')
				}
			}
			sb.WriteByte(c)
		}
		sb.WriteByte('"')
		out = append(out, sb.String())
	}
	return strings.Join(out, " ")
}

func init() {
	register("rule-decode-child", ruleDecodeChild)
	register("rule-total", ruleTotalCmd)
	register("rule-flags", ruleFlagsCmd)
}
