package main

import (
	"encoding/json"
	"errors"
	"flag"
	"fmt"
	"io"
	"math/rand"
	"os"
	"reflect"
	"strings"
	"sync"
	"syscall"

	libaudit "github.com/elastic/go-libaudit/v2"
)

// ---- scripts ------------------------------------------------------------------------

type simFrame struct {
	K       string `json:"k"`    // msg | eintr | eagain | hard | short
	Type    int    `json:"type"` // netlink message type
	Rel     string `json:"rel"`  // own | zero | foreign
	Payload []int  `json:"payload"`
}

type clOp struct {
	Name  string       `json:"name"`
	Mode  string       `json:"mode"` // wait | nowait
	Value U32          `json:"value"`
	Arg   []int        `json:"arg"`
	Plan  [][]simFrame `json:"plan"`
	N     int          `json:"n,omitempty"` // Close: number of concurrent callers (0/1 = one)
}

type clSent struct {
	Type    int   `json:"type"`
	Flags   int   `json:"flags"`
	Seq     U32   `json:"seq"`
	Pid     U32   `json:"pid"`
	Payload []int `json:"payload"`
}

type clRec struct {
	K          string       `json:"k"` // "op"
	Name       string       `json:"name"`
	Mode       string       `json:"mode"`
	Value      U32          `json:"value"`
	Arg        []int        `json:"arg"`
	Plan       [][]simFrame `json:"plan"`
	LeftBefore int          `json:"left_before"`
	Sent       []clSent     `json:"sent"`
	Ret        string       `json:"ret"`
	ErrID      []int        `json:"errid"`
	Data       [][]int      `json:"data"`
	Pops       int          `json:"pops"`
	Left       int          `json:"left"`
	Closes     int          `json:"closes"`
	RType      int          `json:"rtype"`
	ErrText    string       `json:"errtext,omitempty"`
}

type clScript struct {
	Trace int     `json:"trace"`
	Ops   []clOp  `json:"ops"`
	Pred  []clRec `json:"pred,omitempty"`
	Src   string  `json:"src,omitempty"`
}

// ---- simulated kernel ----------------------------------------------------------------

type wireFrame struct {
	k       string
	typ     int
	seq     uint32
	payload []byte
}

type simKernel struct {
	mu     sync.Mutex
	seq    uint32
	wire   []wireFrame
	buf    []byte // the one receive buffer, reused like NetlinkClient.readBuf
	plan   [][]simFrame
	nreq   int
	sent   []clSent
	pops   int
	closes int
}

func newSimKernel() *simKernel {
	return &simKernel{buf: make([]byte, syscall.NLMSG_HDRLEN+libaudit.AuditMessageMaxLength)}
}

func (k *simKernel) Send(msg syscall.NetlinkMessage) (uint32, error) {
	k.mu.Lock()
	defer k.mu.Unlock()
	k.seq++
	s := k.seq
	k.sent = append(k.sent, clSent{Type: int(msg.Header.Type), Flags: int(msg.Header.Flags), Seq: limbs(s),
		Pid: limbs(msg.Header.Pid), Payload: bytesOf(msg.Data)})
	if k.nreq < len(k.plan) && len(k.plan[k.nreq]) > 0 && k.plan[k.nreq][0].K == "sendfail" {
		k.nreq++
		return s, syscall.ENOBUFS // the request never reaches the kernel
	}
	if k.nreq < len(k.plan) {
		for _, f := range k.plan[k.nreq] {
			var fs uint32
			switch f.Rel {
			case "own":
				fs = s
			case "zero":
				fs = 0
			default:
				fs = s + 7
			}
			k.wire = append(k.wire, wireFrame{k: f.K, typ: f.Type, seq: fs, payload: toBytes(f.Payload)})
		}
	}
	k.nreq++
	return s, nil
}

func (k *simKernel) Receive(nonBlocking bool, p libaudit.NetlinkParser) ([]syscall.NetlinkMessage, error) {
	k.mu.Lock()
	defer k.mu.Unlock()
	if len(k.wire) == 0 {
		return nil, syscall.EAGAIN
	}
	f := k.wire[0]
	k.wire = k.wire[1:]
	k.pops++
	switch f.k {
	case "eintr":
		return nil, syscall.EINTR
	case "eagain":
		return nil, syscall.EAGAIN
	case "hard":
		return nil, syscall.ENOBUFS
	case "short":
		n := copy(k.buf, f.payload)
		msgs, err := p(k.buf[:n])
		if err != nil {
			return nil, fmt.Errorf("failed to parse netlink messages (bytes_received=%v): %w", n, err)
		}
		return msgs, nil
	}
	// a kernel datagram: nlmsghdr + payload, written into the shared buffer
	n := syscall.NLMSG_HDRLEN + len(f.payload)
	b := k.buf[:n]
	le32(b[0:], uint32(n))
	b[4], b[5] = byte(f.typ), byte(f.typ>>8)
	b[6], b[7] = 0, 0
	le32(b[8:], f.seq)
	le32(b[12:], 0)
	copy(b[16:], f.payload)
	msgs, err := p(b)
	if err != nil {
		return nil, fmt.Errorf("failed to parse netlink messages (bytes_received=%v): %w", n, err)
	}
	return msgs, nil
}

func (k *simKernel) Close() error {
	k.mu.Lock()
	defer k.mu.Unlock()
	k.closes++
	return nil
}

func le32(b []byte, v uint32) { b[0], b[1], b[2], b[3] = byte(v), byte(v>>8), byte(v>>16), byte(v>>24) }

// status44 serialises an AuditStatus in UAPI field order, by field name.
func status44(s *libaudit.AuditStatus) []int {
	words := []uint32{uint32(s.Mask), s.Enabled, s.Failure, s.PID, s.RateLimit, s.BacklogLimit, s.Lost, s.Backlog,
		s.FeatureBitmap, s.BacklogWaitTime, s.BacklogWaitTimeActual}
	out := make([]byte, 44)
	for i, w := range words {
		le32(out[4*i:], w)
	}
	return bytesOf(out)
}

// errIDs lists the errnos the returned error identifies. Only errnos the
// kernel actually put into an ACK of this script so far are candidates (cands
// accumulates over the script, because WaitForPendingACKs reports ACKs of
// earlier requests).
func errIDs(err error, plan [][]simFrame, cands map[int]bool) []int {
	ids := []int{}
	for _, fr := range plan {
		for _, f := range fr {
			if f.K == "msg" && f.Type == syscall.NLMSG_ERROR && len(f.Payload) >= 4 {
				b := toBytes(f.Payload)
				v := -int32(uint32(b[0]) | uint32(b[1])<<8 | uint32(b[2])<<16 | uint32(b[3])<<24)
				if v > 0 && v < 4096 {
					cands[int(v)] = true
				}
			}
		}
	}
	if err == nil {
		return ids
	}
	text := err.Error()
	for e := 1; e < 4096; e++ {
		if !cands[e] {
			continue
		}
		en := syscall.Errno(e)
		if errors.Is(err, en) || strings.Contains(text, en.Error()) || (e == int(syscall.EEXIST) && strings.Contains(text, "rule exists")) {
			ids = append(ids, e)
		}
	}
	return ids
}

func failureModeFor(v uint32) libaudit.FailureMode {
	switch v {
	case 0:
		return libaudit.SilentOnFailure
	case 1:
		return libaudit.LogOnFailure // the caller names the mode; the UAPI number is the monitor's business
	case 2:
		return libaudit.PanicOnFailure
	}
	return libaudit.FailureMode(v)
}

// runClientScript drives one AuditClient against a scripted kernel.
func runClientScript(sc *clScript) ([]clRec, [2]bool) {
	k := newSimKernel()
	c := &libaudit.AuditClient{Netlink: k}
	var recs []clRec
	type kept struct{ got, snap [][]byte }
	var keptRules []kept
	type keptStatus struct {
		got  *libaudit.AuditStatus
		snap []int
	}
	var keptStatuses []keptStatus
	cands := map[int]bool{}
	for _, op := range sc.Ops {
		k.plan, k.nreq, k.sent, k.pops, k.closes = op.Plan, 0, nil, 0, 0
		r := clRec{K: "op", Name: op.Name, Mode: op.Mode, Value: op.Value, Arg: op.Arg, Plan: op.Plan,
			LeftBefore: len(k.wire), Ret: "nil", Data: [][]int{}}
		if r.Arg == nil {
			r.Arg = []int{}
		}
		if r.Plan == nil {
			r.Plan = [][]simFrame{}
		}
		wm := libaudit.WaitForReply
		if op.Mode == "nowait" {
			wm = libaudit.NoWait
		}
		var err error
		func() {
			defer func() {
				if p := recover(); p != nil {
					err = fmt.Errorf("panic: %v", p)
					r.Ret = "panic"
				}
			}()
			v := op.Value.val()
			switch op.Name {
			case "GetStatus":
				var st *libaudit.AuditStatus
				st, err = c.GetStatus()
				if err == nil && st != nil {
					r.Data = [][]int{status44(st)}
					keptStatuses = append(keptStatuses, keptStatus{st, status44(st)})
				}
			case "GetRules":
				var rules [][]byte
				rules, err = c.GetRules()
				if err == nil {
					kp := kept{got: rules}
					for _, x := range rules {
						r.Data = append(r.Data, bytesOf(x))
						kp.snap = append(kp.snap, append([]byte(nil), x...))
					}
					keptRules = append(keptRules, kp)
				}
			case "AddRule":
				err = c.AddRule(toBytes(op.Arg))
			case "DeleteRule":
				err = c.DeleteRule(toBytes(op.Arg))
			case "DeleteRules":
				_, err = c.DeleteRules()
			case "SetEnabled":
				err = c.SetEnabled(v != 0, wm)
				if v != 0 {
					r.Value = limbs(1)
				}
			case "SetImmutable":
				err = c.SetImmutable(wm)
				r.Value = limbs(2)
			case "SetFailure":
				err = c.SetFailure(failureModeFor(v), wm)
			case "SetPID":
				err = c.SetPID(wm)
				r.Value = limbs(uint32(os.Getpid()))
			case "SetRateLimit":
				err = c.SetRateLimit(v, wm)
			case "SetBacklogLimit":
				err = c.SetBacklogLimit(v, wm)
			case "SetBacklogWaitTime":
				err = c.SetBacklogWaitTime(int32(v), wm)
			case "GetStatusAsync":
				_, err = c.GetStatusAsync(v != 0)
			case "Receive":
				var raw *libaudit.RawAuditMessage
				raw, err = c.Receive(true)
				if err == nil && raw != nil {
					r.RType = int(raw.Type)
					r.Data = [][]int{bytesOf(raw.Data)}
				}
			case "WaitForPendingACKs":
				err = c.WaitForPendingACKs()
			case "Close":
				if op.N > 1 {
					var wg sync.WaitGroup
					start := make(chan struct{})
					for i := 0; i < op.N; i++ {
						wg.Add(1)
						go func() { defer wg.Done(); <-start; c.Close() }()
					}
					close(start)
					wg.Wait()
				} else {
					err = c.Close()
				}
			default:
				fatal("unknown client op %q", op.Name)
			}
		}()
		if err != nil && r.Ret != "panic" {
			r.Ret = "err"
			r.ErrText = err.Error()
		}
		r.ErrID = errIDs(err, op.Plan, cands)
		r.Sent = k.sent
		if r.Sent == nil {
			r.Sent = []clSent{}
		}
		r.Pops, r.Left, r.Closes = k.pops, len(k.wire), k.closes
		recs = append(recs, r)
	}
	stable := true
	for _, kp := range keptRules {
		for i := range kp.got {
			if string(kp.got[i]) != string(kp.snap[i]) {
				stable = false
			}
		}
	}
	statusStable := true
	for _, ks := range keptStatuses {
		if !sameInts(status44(ks.got), ks.snap) {
			statusStable = false
		}
	}
	return recs, [2]bool{stable, statusStable}
}

func sameClientRecs(pred, real []clRec) bool {
	if len(pred) != len(real) {
		return false
	}
	for i := range pred {
		p, q := pred[i], real[i]
		if p.Name != q.Name || p.Ret != q.Ret || p.Pops != q.Pops || p.Left != q.Left || p.Closes != q.Closes || p.RType != q.RType ||
			p.LeftBefore != q.LeftBefore || len(p.Sent) != len(q.Sent) {
			return false
		}
		// every errno the model says the error identifies must be identified by the
		// real error (extra matches, e.g. EINVAL from a parse failure, do not matter
		// to the monitor, which only asks whether the kernel's errno is among them)
		for _, e := range p.ErrID {
			found := false
			for _, x := range q.ErrID {
				found = found || x == e
			}
			if !found {
				return false
			}
		}
		if !reflect.DeepEqual(normData(p.Data), normData(q.Data)) {
			return false
		}
		for j := range p.Sent {
			a, b := p.Sent[j], q.Sent[j]
			if a.Type != b.Type || a.Flags != b.Flags || a.Seq != b.Seq {
				return false
			}
			if p.Name != "SetPID" && !sameInts(a.Payload, b.Payload) {
				return false
			}
		}
	}
	return true
}

func normData(d [][]int) [][]int {
	out := [][]int{}
	for _, x := range d {
		if x == nil {
			x = []int{}
		}
		out = append(out, x)
	}
	return out
}

func clientRunCmd(args []string) int {
	fs := flag.NewFlagSet("client-run", flag.ExitOnError)
	in := fs.String("in", "", "scripts ndjson")
	out := fs.String("out", "", "trace ndjson")
	all := fs.Bool("all", false, "judge every trace")
	sample := fs.Int("sample", 0, "judge every n-th trace that equals the prediction")
	par := fs.Int("par", 64, "scripts run concurrently (EAGAIN paths sleep)")
	fs.Parse(args)

	var scripts []*clScript
	readND(*in, func(line []byte) {
		s := &clScript{}
		if err := json.Unmarshal(line, s); err != nil {
			fatal("bad script: %v", err)
		}
		scripts = append(scripts, s)
	})
	type result struct {
		recs   []clRec
		stable [2]bool
	}
	results := make([]result, len(scripts))
	var wg sync.WaitGroup
	sem := make(chan struct{}, *par)
	for i, s := range scripts {
		wg.Add(1)
		sem <- struct{}{}
		go func(i int, s *clScript) {
			defer wg.Done()
			defer func() { <-sem }()
			recs, stable := runClientScript(s)
			results[i] = result{recs, stable}
		}(i, s)
	}
	wg.Wait()

	w := newNDWriter(*out)
	w.write(map[string]interface{}{"k": "meta", "family": "client"})
	stats := map[string]int{"scripts": len(scripts)}
	feat := map[string]int{}
	var mism []int
	for i, s := range scripts {
		judge := *all || s.Pred == nil
		if s.Pred != nil {
			if sameClientRecs(s.Pred, results[i].recs) && results[i].stable == [2]bool{true, true} {
				stats["equal_to_prediction"]++
				if *sample > 0 && i%*sample == 0 {
					judge = true
				}
			} else {
				stats["differs_from_prediction"]++
				if len(mism) < 20 {
					mism = append(mism, s.Trace)
				}
				if os.Getenv("VERIF_DEBUG") != "" && len(mism) <= 3 {
					pj, _ := json.Marshal(s.Pred)
					rj, _ := json.Marshal(results[i].recs)
					fmt.Fprintf(os.Stderr, "PRED %s\nREAL %s\n", pj, rj)
				}
				judge = true
			}
		}
		nonzero, noisy, transient, nowait := false, false, false, false
		for _, r := range results[i].recs {
			stats["operations"]++
			if r.Mode == "nowait" {
				nowait = true
			}
			for _, fr := range r.Plan {
				for _, f := range fr {
					if f.K == "eintr" || f.K == "eagain" {
						transient = true
					}
					if f.K == "msg" && f.Rel == "zero" {
						noisy = true
					}
					if f.K == "msg" && f.Type == 2 && len(f.Payload) >= 4 && (f.Payload[0] != 0 || f.Payload[1] != 0) {
						nonzero = true
					}
				}
			}
		}
		if nonzero {
			feat["kernel_error"]++
		}
		if noisy {
			feat["unsolicited_events"]++
		}
		if transient {
			feat["transient_failures"]++
		}
		if nowait {
			feat["nowait"]++
		}
		if judge {
			stats["judged_by_tlc"]++
			w.write(map[string]interface{}{"k": "reset", "trace": s.Trace})
			for _, r := range results[i].recs {
				w.write(r)
				stats["records"]++
			}
			w.write(map[string]interface{}{"k": "endtrace", "rules_stable": results[i].stable[0], "status_stable": results[i].stable[1]})
		}
	}
	w.close()
	printJSON(map[string]interface{}{"stats": stats, "mismatch_traces": mism, "features": feat})
	return 0
}

// ---- per-record C16 cases ------------------------------------------------------------------

func clientCasesCmd(args []string) int {
	fs := flag.NewFlagSet("client-cases", flag.ExitOnError)
	seed := fs.Int64("seed", 1, "seed")
	out := fs.String("out", "", "trace ndjson")
	maxLen := fs.Int("maxlen", 80, "largest buffer length")
	reps := fs.Int("reps", 2, "random contents per length")
	fs.Parse(args)
	w := newNDWriter(*out)
	w.write(map[string]interface{}{"k": "meta", "family": "client"})
	trace := 7000000
	consts := map[string]int{
		"AuditGet": int(libaudit.AuditGet), "AuditSet": int(libaudit.AuditSet),
		"SilentOnFailure": int(libaudit.SilentOnFailure), "LogOnFailure": int(libaudit.LogOnFailure), "PanicOnFailure": int(libaudit.PanicOnFailure),
		"AuditStatusEnabled": int(libaudit.AuditStatusEnabled), "AuditStatusFailure": int(libaudit.AuditStatusFailure),
		"AuditStatusPID": int(libaudit.AuditStatusPID), "AuditStatusRateLimit": int(libaudit.AuditStatusRateLimit),
		"AuditStatusBacklogLimit": int(libaudit.AuditStatusBacklogLimit), "AuditStatusBacklogWaitTime": int(libaudit.AuditStatusBacklogWaitTime),
		"AuditStatusLost":                   int(libaudit.AuditStatusLost),
		"AuditFeatureBitmapBacklogLimit":    int(libaudit.AuditFeatureBitmapBacklogLimit),
		"AuditFeatureBitmapBacklogWaitTime": int(libaudit.AuditFeatureBitmapBacklogWaitTime),
		"AuditFeatureBitmapExecutablePath":  int(libaudit.AuditFeatureBitmapExecutablePath),
		"AuditFeatureBitmapExcludeExtend":   int(libaudit.AuditFeatureBitmapExcludeExtend),
		"AuditFeatureBitmapSessionIDFilter": int(libaudit.AuditFeatureBitmapSessionIDFilter),
		"AuditFeatureBitmapLostReset":       int(libaudit.AuditFeatureBitmapLostReset),
		"MinSizeofAuditStatus":              libaudit.MinSizeofAuditStatus,
		"AuditMessageMaxLength":             libaudit.AuditMessageMaxLength,
	}
	for name, v := range consts {
		trace++
		w.write(map[string]interface{}{"k": "const", "trace": trace, "name": name, "value": v})
	}
	rng := newRand(*seed, 77)
	n := 0
	for l := 0; l <= *maxLen; l++ {
		for pat := 0; pat < 2+*reps; pat++ {
			backing := make([]byte, l+64)
			for i := range backing {
				backing[i] = 0xA5 // sentinel in the spare capacity
			}
			buf := backing[:l]
			for i := range buf {
				switch pat {
				case 0:
					buf[i] = 0
				case 1:
					buf[i] = 0xFF
				default:
					buf[i] = byte(rng.Intn(256))
				}
			}
			st := libaudit.AuditStatus{Mask: 0xDEADBEEF, Enabled: 0xDEADBEEF, Failure: 0xDEADBEEF, PID: 0xDEADBEEF,
				RateLimit: 0xDEADBEEF, BacklogLimit: 0xDEADBEEF, Lost: 0xDEADBEEF, Backlog: 0xDEADBEEF,
				FeatureBitmap: 0xDEADBEEF, BacklogWaitTime: 0xDEADBEEF, BacklogWaitTimeActual: 0xDEADBEEF}
			ret := "ok"
			func() {
				defer func() {
					if p := recover(); p != nil {
						ret = "panic"
					}
				}()
				err := st.FromWireFormat(buf)
				if errors.Is(err, io.ErrUnexpectedEOF) {
					ret = "eof"
				} else if err != nil {
					ret = "err"
				}
			}()
			trace++
			n++
			w.write(map[string]interface{}{"k": "fromwire", "trace": trace, "buf": bytesOf(buf), "ret": ret, "out": status44(&st)})
		}
	}
	w.close()
	printJSON(map[string]interface{}{"stats": map[string]int{"constants": len(consts), "fromwire": n}})
	return 0
}

// ---- random scripts (binding B) -----------------------------------------------------------------

func ackFrame(errno int) simFrame {
	b := make([]byte, 4+16)
	le32(b, uint32(-int32(errno)))
	return simFrame{K: "msg", Type: 2, Rel: "own", Payload: bytesOf(b)}
}

func noiseFrames(r *rand.Rand, max int) []simFrame {
	var out []simFrame
	for n := r.Intn(max + 1); n > 0; n-- {
		p := make([]byte, r.Intn(40))
		r.Read(p)
		out = append(out, simFrame{K: "msg", Type: 1300 + r.Intn(30), Rel: "zero", Payload: bytesOf(p)})
	}
	return out
}

func transientFrames(r *rand.Rand, allowAgain bool) []simFrame {
	var out []simFrame
	n := 0
	switch r.Intn(10) {
	case 0:
		n = 9
	case 1, 2:
		n = 1 + r.Intn(8)
	}
	for i := 0; i < n; i++ {
		k := "eintr"
		if allowAgain && r.Intn(12) == 0 {
			k = "eagain"
		}
		out = append(out, simFrame{K: k, Rel: "own", Payload: []int{}})
	}
	return out
}

// gap is what may sit between two frames the client waits for: unsolicited
// records and runs of at most 9 transient failures, in any alternation (several
// runs in one wait may add up to more than 9).
func gap(r *rand.Rand) []simFrame {
	out := noiseFrames(r, 2)
	for seg := r.Intn(4); seg > 0; seg-- {
		out = append(out, transientFrames(r, seg == 1)...)
		out = append(out, simFrame{K: "msg", Type: 1300 + r.Intn(30), Rel: "zero", Payload: []int{1}})
		if r.Intn(2) == 0 {
			out = append(out, transientFrames(r, false)...)
		}
	}
	out = append(out, noiseFrames(r, 1)...)
	// adjacent runs must not add up to more than 9 failures in a row (the property's quantifier)
	kept, run := out[:0], 0
	for _, f := range out {
		if f.K == "eintr" || f.K == "eagain" {
			if run++; run > 9 {
				continue
			}
		} else {
			run = 0
		}
		kept = append(kept, f)
	}
	return kept
}

var scriptErrnos = []int{0, 0, 0, 0, 1, 17, 22, 13, 2, 12, 16, 95}

// pickErrno: mostly the common verdicts, now and then any errno the kernel has a name for
func pickErrno(r *rand.Rand) int {
	if r.Intn(5) == 0 {
		return 1 + r.Intn(133)
	}
	return scriptErrnos[r.Intn(len(scriptErrnos))]
}

// errnoSweepScripts: every command x every errno 1..133 (and a few beyond the named range), as short
// scripts so that the set of errnos an error text may identify stays small.
func errnoSweepScripts(r *rand.Rand, first int) []*clScript {
	var out []*clScript
	errnos := []int{}
	for e := 1; e <= 133; e++ {
		errnos = append(errnos, e)
	}
	errnos = append(errnos, 512, 524, 4095)
	names := []string{"AddRule", "DeleteRule", "GetStatus", "GetRules", "DeleteRules", "SetEnabled", "SetPID", "SetRateLimit", "SetBacklogLimit", "SetFailure", "SetImmutable", "SetBacklogWaitTime"}
	var cur *clScript
	for _, name := range names {
		for _, e := range errnos {
			if cur == nil || len(cur.Ops) >= 6 {
				cur = &clScript{Trace: first + len(out), Src: "errno-sweep"}
				out = append(out, cur)
			}
			op := clOp{Name: name, Mode: "wait", Plan: [][]simFrame{append(gap(r), ackFrame(e))}}
			switch {
			case name == "AddRule" || name == "DeleteRule":
				op.Arg = randomPayload(r, 1+r.Intn(60))
			case strings.HasPrefix(name, "Set"):
				op.Value = limbs(uint32(r.Intn(3)))
			}
			cur.Ops = append(cur.Ops, op)
		}
	}
	return out
}

func randomPayload(r *rand.Rand, n int) []int {
	p := make([]byte, n)
	r.Read(p)
	return bytesOf(p)
}

func genClientScript(r *rand.Rand, trace, length int, profile string) *clScript {
	sc := &clScript{Trace: trace, Src: "random-" + profile}
	vals := []uint32{0, 1, 2, 255, 256, 65535, 65536, 0x7fffffff, 0x80000000, 0xffffffff, r.Uint32(), r.Uint32()}
	setters := []string{"SetEnabled", "SetImmutable", "SetFailure", "SetPID", "SetRateLimit", "SetBacklogLimit", "SetBacklogWaitTime"}
	outstanding := 0
	addSetter := func(mode string) {
		v := vals[r.Intn(len(vals))]
		name := setters[r.Intn(len(setters))]
		if name == "SetFailure" {
			v = uint32(r.Intn(3))
		}
		errno := pickErrno(r)
		plan := [][]simFrame{append(gap(r), ackFrame(errno))}
		if mode == "nowait" && r.Intn(8) == 0 {
			plan = [][]simFrame{{{K: "sendfail", Rel: "own", Payload: []int{}}}} // never reaches the kernel: not pending
		}
		sc.Ops = append(sc.Ops, clOp{Name: name, Mode: mode, Value: limbs(v), Plan: plan})
	}
	addWaitOp := func() {
		errno := pickErrno(r)
		ackScript := append(gap(r), ackFrame(errno))
		switch x := r.Intn(100); {
		case x < 25:
			addSetter("wait")
		case x < 45:
			plan := ackScript
			if errno == 0 {
				n := []int{32, 32, 36, 40, 44, 44, 44, 48, 64, 33, 38, 43}[r.Intn(12)]
				plan = append(plan, gap(r)...)
				plan = append(plan, simFrame{K: "msg", Type: 1000, Rel: "own", Payload: randomPayload(r, n)})
				if r.Intn(6) == 0 {
					// the status overtakes the acknowledgement (the kernel sends it from a thread of its own)
					plan = append(gap(r), simFrame{K: "msg", Type: 1000, Rel: "own", Payload: randomPayload(r, []int{32, 44, 48}[r.Intn(3)])})
					plan = append(plan, gap(r)...)
					plan = append(plan, ackFrame(0))
				}
			}
			sc.Ops = append(sc.Ops, clOp{Name: "GetStatus", Mode: "wait", Plan: [][]simFrame{plan}})
		case x < 65:
			plan := ackScript
			nrules := 0
			if errno == 0 {
				nrules = r.Intn(4)
				maxLen := 1100
				if r.Intn(8) == 0 { // a rule table of a real system: dozens of (short) rules
					nrules, maxLen = 30+r.Intn(50), 40
				}
				var prev []int
				for i := 0; i < nrules; i++ {
					plan = append(plan, gap(r)...)
					pl := randomPayload(r, 1+r.Intn(maxLen))
					if prev != nil && r.Intn(3) == 0 { // what the kernel lists is up to the kernel: the same payload twice in a row
						pl = append([]int(nil), prev...)
					}
					prev = pl
					plan = append(plan, simFrame{K: "msg", Type: 1013, Rel: "own", Payload: pl})
				}
				plan = append(plan, gap(r)...)
				plan = append(plan, simFrame{K: "msg", Type: 3, Rel: "own", Payload: []int{}})
			}
			if r.Intn(2) == 0 {
				sc.Ops = append(sc.Ops, clOp{Name: "GetRules", Mode: "wait", Plan: [][]simFrame{plan}})
			} else {
				full := [][]simFrame{plan}
				// a long table: the kernel accepts every deletion, or all but one somewhere
				refuseAt := -1
				if nrules >= 30 && r.Intn(2) == 0 {
					refuseAt = r.Intn(nrules)
				}
				for i := 0; i < nrules; i++ {
					e := pickErrno(r)
					if nrules >= 30 {
						e = 0
						if i == refuseAt {
							e = 1 + r.Intn(30)
						}
					}
					full = append(full, append(gap(r), ackFrame(e)))
				}
				sc.Ops = append(sc.Ops, clOp{Name: "DeleteRules", Mode: "wait", Plan: full})
			}
		case x < 82:
			sc.Ops = append(sc.Ops, clOp{Name: "AddRule", Mode: "wait", Arg: randomPayload(r, 1+r.Intn(200)), Plan: [][]simFrame{ackScript}})
		default:
			sc.Ops = append(sc.Ops, clOp{Name: "DeleteRule", Mode: "wait", Arg: randomPayload(r, 1+r.Intn(200)), Plan: [][]simFrame{ackScript}})
		}
	}
	if profile == "C17" && trace%7 == 0 {
		// a long run of NoWait settings before the ACKs are collected (a daemon's start-up, many times over)
		for n := 17 + r.Intn(24); n > 0; n-- {
			addSetter("nowait")
		}
		sc.Ops = append(sc.Ops, clOp{Name: "WaitForPendingACKs", Mode: "wait"})
		sc.Ops = append(sc.Ops, clOp{Name: "WaitForPendingACKs", Mode: "wait"})
	}
	if profile == "C17" && trace%5 == 1 {
		// the rule table listed, changed and listed again (what auditctl -l, -D, -R does): the second listing is
		// received while the first result is still held; it may be smaller, equal or larger
		listing := func(n, size int) {
			plan := []simFrame{ackFrame(0)}
			for i := 0; i < n; i++ {
				plan = append(plan, simFrame{K: "msg", Type: 1013, Rel: "own", Payload: randomPayload(r, size+r.Intn(8))})
			}
			plan = append(plan, simFrame{K: "msg", Type: 3, Rel: "own", Payload: []int{}})
			sc.Ops = append(sc.Ops, clOp{Name: "GetRules", Mode: "wait", Plan: [][]simFrame{plan}})
		}
		n, size := 1+r.Intn(6), []int{8, 64, 300, 1056}[r.Intn(4)]
		listing(n, size)
		for i := r.Intn(3); i > 0; i-- {
			addSetter("wait")
		}
		switch r.Intn(3) {
		case 0:
			listing(n, size)
		case 1:
			listing(1+r.Intn(n), size)
		default:
			listing(1+r.Intn(8), []int{8, 64, 300, 1056}[r.Intn(4)])
		}
	}
	for len(sc.Ops) < length {
		if profile != "C17" {
			addWaitOp()
			continue
		}
		switch x := r.Intn(100); {
		case x < 40:
			addSetter("nowait") // noise and transient failures only before the ACK
			outstanding++
		case x < 62:
			sc.Ops = append(sc.Ops, clOp{Name: "WaitForPendingACKs", Mode: "wait"})
			outstanding = 0
		case x < 70:
			n := 1
			if r.Intn(3) == 0 {
				n = 2 + r.Intn(3)
			}
			cplan := [][]simFrame{{ackFrame(0)}}
			if r.Intn(4) == 0 {
				cplan = [][]simFrame{{{K: "sendfail", Rel: "own", Payload: []int{}}}} // the PID cannot be cleared: the socket is closed all the same
			}
			sc.Ops = append(sc.Ops, clOp{Name: "Close", Mode: "wait", N: n, Plan: cplan})
		default:
			// wait-mode commands are used on a socket with nothing outstanding (rarely otherwise)
			if outstanding == 0 || r.Intn(6) == 0 {
				addWaitOp()
			}
		}
	}
	// one adversarial answer at the very end (it may leave the socket out of step)
	if profile == "C08" && r.Intn(3) == 0 {
		bad := []simFrame{
			{K: "msg", Type: 2, Rel: "foreign", Payload: ackFrame(0).Payload},
			{K: "msg", Type: 3, Rel: "own", Payload: ackFrame(0).Payload},
			{K: "msg", Type: 2, Rel: "own", Payload: []int{0, 0}},
			{K: "hard", Rel: "own", Payload: []int{}},
			{K: "short", Rel: "own", Payload: []int{1, 2, 3, 4, 5}},
		}[r.Intn(5)]
		name := []string{"AddRule", "DeleteRule", "SetRateLimit", "GetStatus", "GetRules"}[r.Intn(5)]
		sc.Ops = append(sc.Ops, clOp{Name: name, Mode: "wait", Arg: []int{1, 2, 3}, Value: limbs(9), Plan: [][]simFrame{append(gap(r), bad)}})
	}
	return sc
}

func clientGenCmd(args []string) int {
	fs := flag.NewFlagSet("client-gen", flag.ExitOnError)
	seed := fs.Int64("seed", 1, "seed")
	n := fs.Int("n", 100, "scripts")
	length := fs.Int("len", 12, "operations per script")
	profile := fs.String("profile", "C08", "C08 | C16 | C17")
	first := fs.Int("first", 1, "first trace id")
	sweep := fs.Bool("sweep", false, "append the command x errno sweep (trace ids from 6000000)")
	out := fs.String("out", "", "output")
	fs.Parse(args)
	w := newNDWriter(*out)
	for i := 0; i < *n; i++ {
		w.write(genClientScript(newRand(*seed, int64(*first+i)), *first+i, *length, *profile))
	}
	if *sweep {
		for _, sc := range errnoSweepScripts(newRand(*seed, 6000000), 6000000) {
			w.write(sc)
		}
	}
	w.close()
	return 0
}

func init() {
	register("client-run", clientRunCmd)
	register("client-cases", clientCasesCmd)
	register("client-gen", clientGenCmd)
}
