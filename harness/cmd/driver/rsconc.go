package main

import (
	"encoding/json"
	"flag"
	"fmt"
	"math/rand"
	"runtime"
	"strconv"
	"sync"
	"sync/atomic"
	"time"

	libaudit "github.com/elastic/go-libaudit/v2"
	"github.com/elastic/go-libaudit/v2/auparse"
)

// ---- controlled scheduler (binding A for C11) --------------------------------------

type concCase struct {
	Trace int             `json:"trace"`
	Max   int             `json:"max"`
	Fine  bool            `json:"fine"`
	Prog  [][]rsOp        `json:"prog"`
	Re    []rsOp          `json:"re"` // nested operation per goroutine; op "none" = no re-entry
	Sched []int           `json:"sched"`
	Pred  [][]interface{} `json:"pred,omitempty"` // compact predicted observation
}

type concObs struct {
	K      string `json:"k"` // "obs"
	E      string `json:"e"` // call | cb | lost | ret
	G      int    `json:"g"`
	Op     string `json:"op"`
	ID     int    `json:"id"`
	Off    int    `json:"off"`
	Type   int    `json:"type"`
	IDs    []int  `json:"ids"`
	Ret    string `json:"ret"`
	Nested bool   `json:"nested"`
	N      int    `json:"n"`
}

type concEvent struct {
	g    int
	kind string // parked | done
}

type concRun struct {
	c      *concCase
	r      *libaudit.Reassembler
	resume map[int]chan struct{}
	events chan concEvent
	mu     sync.Mutex // obs and ids (several goroutines run once the schedule has been left)
	obs    []concObs
	ids    map[*auparse.AuditMessage]int
	armed  []bool // per goroutine, touched by that goroutine only
	inNest []bool
	goids  sync.Map      // runtime goroutine id -> g
	free   atomic.Bool   // the schedule no longer fits what the code does: gates are open
	freeCh chan struct{} // closed when free is set
}

// goid: the runtime's id of the calling goroutine (callbacks carry no other identity).
func goid() int64 {
	var buf [64]byte
	n := runtime.Stack(buf[:], false)
	var id int64
	for _, c := range buf[len("goroutine "):n] {
		if c < '0' || c > '9' {
			break
		}
		id = id*10 + int64(c-'0')
	}
	return id
}

func (cr *concRun) curG() int {
	if v, ok := cr.goids.Load(goid()); ok {
		return v.(int)
	}
	return 0
}

// gate parks the calling goroutine until the scheduler hands it the token (or opens all gates).
func (cr *concRun) gate() {
	if cr.free.Load() {
		return
	}
	g := cr.curG()
	if g == 0 {
		return // a goroutine the case did not start (none in the code as it stands)
	}
	cr.events <- concEvent{g, "parked"}
	select {
	case <-cr.resume[g]:
	case <-cr.freeCh:
	}
}

func (cr *concRun) log(o concObs) {
	o.K = "obs"
	if o.IDs == nil {
		o.IDs = []int{}
	}
	cr.mu.Lock()
	cr.obs = append(cr.obs, o)
	cr.mu.Unlock()
}

func (cr *concRun) ReassemblyComplete(msgs []*auparse.AuditMessage) {
	if cr.c.Fine {
		cr.gate()
	}
	g := cr.curG()
	ids := make([]int, 0, len(msgs))
	cr.mu.Lock()
	for _, m := range msgs {
		if id, ok := cr.ids[m]; ok {
			ids = append(ids, id)
		} else {
			ids = append(ids, -1)
		}
	}
	cr.mu.Unlock()
	nested := cr.inNest[g]
	cr.log(concObs{E: "cb", G: g, IDs: ids, Nested: nested})
	if !nested && g > 0 && cr.armed[g] && cr.c.Re[g-1].Op != "none" {
		cr.armed[g] = false
		cr.inNest[g] = true
		cr.doOp(g, cr.c.Re[g-1], 100*g+90, true)
		cr.inNest[g] = false
	}
}

func (cr *concRun) EventsLost(count int) {
	g := cr.curG()
	cr.log(concObs{E: "lost", G: g, N: count, Nested: cr.inNest[g]})
}

func (cr *concRun) doOp(g int, op rsOp, id int, nested bool) {
	cr.log(concObs{E: "call", G: g, Op: op.Op, ID: id, Off: op.Off, Type: op.Type, Nested: nested})
	ret := "ok"
	func() {
		defer func() {
			if p := recover(); p != nil {
				ret = "panic"
			}
		}()
		switch op.Op {
		case "push":
			m := &auparse.AuditMessage{
				RecordType: auparse.AuditMessageType(op.Type),
				Timestamp:  time.Unix(1490137971, 0),
				Sequence:   uint32(1000 + op.Off),
				RawData:    fmt.Sprintf("audit(1490137971.011:%d): vid=%d", 1000+op.Off, id),
			}
			cr.mu.Lock()
			cr.ids[m] = id
			cr.mu.Unlock()
			cr.r.PushMessage(m)
		case "maintain":
			if err := cr.r.Maintain(); err != nil {
				ret = "err"
			}
		case "close":
			if err := cr.r.Close(); err != nil {
				ret = "err"
			}
		}
	}()
	cr.log(concObs{E: "ret", G: g, Op: op.Op, ID: id, Ret: ret, Nested: nested})
}

// runConcCase executes one schedule: one goroutine runs at a time, from gate to gate, in the order
// the model's behaviour gives.  When the code does not follow the schedule - a goroutine is finished
// when its turn comes, does not reach a gate (it waits for a lock that a parked goroutine holds), or
// still has gates to pass when the schedule ends: the code's grain is not the model's - all gates are
// opened and the goroutines run on freely; what they did is judged all the same.  Stuck means that
// the goroutines did not finish even with every gate open: a deadlock of the code itself.
var gateTimeouts int // schedules of this process that ended in a gate nobody reached in time

func runConcCase(c *concCase, stuckAfter time.Duration) ([]concObs, bool) {
	n := len(c.Prog)
	cr := &concRun{c: c, resume: map[int]chan struct{}{}, events: make(chan concEvent, 4096),
		ids: map[*auparse.AuditMessage]int{}, armed: make([]bool, n+1), inNest: make([]bool, n+1), freeCh: make(chan struct{})}
	r, err := libaudit.NewReassembler(c.Max, 10000*time.Hour, cr)
	if err != nil {
		fatal("NewReassembler: %v", err)
	}
	cr.r = r
	libaudit.VerifYield = func(string) { cr.gate() }
	for g := 1; g <= n; g++ {
		cr.resume[g] = make(chan struct{})
		cr.armed[g] = true
	}
	for g := 1; g <= n; g++ {
		go func(g int) {
			cr.goids.Store(goid(), g)
			select { // wait for the first token
			case <-cr.resume[g]:
			case <-cr.freeCh:
			}
			for i, op := range c.Prog[g-1] {
				if i > 0 {
					cr.gate() // entry gate of the next operation
				}
				cr.doOp(g, op, 100*g+i+1, false)
			}
			cr.events <- concEvent{g, "done"}
		}(g)
	}
	// gateWait is far beyond what a step between two gates takes.  A tree whose locking has another grain than
	// the model's (a goroutine waits for a lock that a parked one holds) runs into it schedule after schedule:
	// after a few of those the wait is cut short, and after many the schedules are run with open gates from
	// the start - the controlled pass says nothing about such a tree, the observations are judged all the same.
	gateWait := 1500 * time.Millisecond
	if gateTimeouts >= 8 {
		gateWait = 60 * time.Millisecond
	}
	finished := map[int]bool{}
	fits := gateTimeouts < 40
	sched := c.Sched
	if !fits {
		sched = nil
	}
	for _, g := range sched {
		if finished[g] {
			fits = false
			break
		}
		select {
		case cr.resume[g] <- struct{}{}:
		case <-time.After(gateWait):
			fits = false
			gateTimeouts++
		}
		if !fits {
			break
		}
		select {
		case ev := <-cr.events:
			if ev.kind == "done" {
				finished[ev.g] = true
			}
		case <-time.After(gateWait):
			fits = false
			gateTimeouts++
		}
		if !fits {
			break
		}
	}
	stuck := false
	if !fits || len(finished) < n {
		cr.free.Store(true)
		close(cr.freeCh)
		deadline := time.After(stuckAfter)
		for len(finished) < n && !stuck {
			select {
			case ev := <-cr.events:
				if ev.kind == "done" {
					finished[ev.g] = true
				}
			case <-deadline:
				stuck = true
			}
		}
	}
	cr.mu.Lock()
	obs := append([]concObs(nil), cr.obs...)
	cr.mu.Unlock()
	return obs, stuck
}

func compactObs(o concObs) []interface{} {
	return []interface{}{o.E, o.G, o.ID, o.IDs, o.Ret, o.N}
}

func samePred(pred [][]interface{}, obs []concObs) bool {
	if len(pred) != len(obs) {
		return false
	}
	for i, o := range obs {
		a, _ := json.Marshal(pred[i])
		// ids of cb/lost records are not part of the real record's id field
		c := compactObs(o)
		if o.E == "cb" || o.E == "lost" {
			var p []interface{}
			json.Unmarshal(a, &p)
			p[2] = 0
			c[2] = 0
			a, _ = json.Marshal(p)
		}
		b, _ := json.Marshal(c)
		if string(a) != string(b) {
			return false
		}
	}
	return true
}

// conc-run: replay schedules under the controlled scheduler.
func concRunCmd(args []string) int {
	fs := flag.NewFlagSet("conc-run", flag.ExitOnError)
	in := fs.String("in", "", "schedules ndjson")
	out := fs.String("out", "", "trace ndjson for TLC")
	start := fs.Int("start", 0, "index of the first case to run")
	sample := fs.Int("sample", 0, "judge every n-th case whose observation equals the prediction")
	all := fs.Bool("all", false, "judge every case")
	stuckMs := fs.Int("stuck-ms", 10000, "declare a goroutine stuck after this long without reaching a gate")
	fs.Parse(args)

	var cases []*concCase
	readND(*in, func(line []byte) {
		c := &concCase{}
		if err := json.Unmarshal(line, c); err != nil {
			fatal("bad case: %v", err)
		}
		cases = append(cases, c)
	})
	w := newNDWriter(*out)
	w.write(map[string]interface{}{"k": "meta", "family": "reassembler-conc"})
	stats := map[string]int{"cases": len(cases)}
	next := len(cases)
	var mism []int
	for i := *start; i < len(cases); i++ {
		c := cases[i]
		obs, stuck := runConcCase(c, time.Duration(*stuckMs)*time.Millisecond)
		stats["executed"]++
		judge := *all || c.Pred == nil || stuck
		if c.Pred != nil && !stuck {
			if samePred(c.Pred, obs) {
				stats["equal_to_prediction"]++
				if *sample > 0 && i%*sample == 0 {
					judge = true
				}
			} else {
				stats["differs_from_prediction"]++
				if len(mism) < 20 {
					mism = append(mism, c.Trace)
				}
				judge = true
			}
		}
		if judge {
			stats["judged_by_tlc"]++
			w.write(map[string]interface{}{"k": "reset", "trace": c.Trace})
			for _, o := range obs {
				w.write(o)
				stats["records"]++
			}
			w.write(map[string]interface{}{"k": "end", "stuck": stuck, "panics": 0}) // a panic of a controlled call is its "ret"
		}
		if stuck {
			// goroutines of this case are blocked for good; a fresh process continues
			stats["stuck"]++
			next = i + 1
			break
		}
	}
	w.close()
	printJSON(map[string]interface{}{"stats": stats, "next": next, "mismatch_traces": mism})
	return 0
}

// ---- free scheduler (binding B for C11) -----------------------------------------------

type freeSlot struct {
	raw       string // the text given to Push (pushers that go through the raw entry point)
	seq       uint32
	id        int
	delivered int   // written by the delivering goroutine only (a double delivery is a detectable race)
	group     []int // ids delivered together with this message (set on the first message of a group)
}

type freeStream struct {
	r         *libaudit.Reassembler
	reenter   int
	lostYield int               // how long EventsLost dwells (scheduler yields; above 3 also a short sleep)
	byID      map[int]*freeSlot // read-only while the round runs: messages that went through Push(type, raw) carry no payload
	strayMu   sync.Mutex
	stray     [][]int // groups whose first message is nobody's
}

// slotOf finds the slot of a delivered message: by its payload, or (Push of raw text) by the id written into
// the text - and then only if the message is filed under the sequence number written next to it.
func (s *freeStream) slotOf(m *auparse.AuditMessage) *freeSlot {
	if sl, ok := m.Payload.(*freeSlot); ok {
		return sl
	}
	if mm := vidRe.FindStringSubmatch(m.RawData); mm != nil {
		id, _ := strconv.Atoi(mm[1])
		if sl := s.byID[id]; sl != nil && sl.raw == m.RawData && m.Sequence == sl.seq {
			return sl
		}
	}
	return nil
}

func (s *freeStream) ReassemblyComplete(msgs []*auparse.AuditMessage) {
	ids := make([]int, 0, len(msgs))
	for _, m := range msgs {
		sl := s.slotOf(m)
		if sl == nil {
			ids = append(ids, -1)
			continue
		}
		sl.delivered++
		ids = append(ids, sl.id)
	}
	if len(msgs) > 0 {
		if sl := s.slotOf(msgs[0]); sl != nil {
			sl.group = append(sl.group, ids...)
			sl.group = append(sl.group, -2) // group separator
		} else {
			s.strayMu.Lock()
			s.stray = append(s.stray, ids)
			s.strayMu.Unlock()
		}
	}
	if s.reenter > 0 && len(ids) > 0 && ids[0]%s.reenter == 0 {
		s.r.Maintain()
	}
}

// EventsLost is a callback like the other one: it may take its time (other goroutines run meanwhile) and it
// may re-enter the Reassembler.
func (s *freeStream) EventsLost(int) {
	for i := 0; i < s.lostYield; i++ {
		runtime.Gosched()
	}
	if s.lostYield > 3 {
		time.Sleep(time.Duration(s.lostYield) * 10 * time.Microsecond)
	}
	if s.reenter > 0 && s.lostYield%2 == 1 {
		s.r.Maintain()
	}
}

func concFreeCmd(args []string) int {
	fs := flag.NewFlagSet("conc-free", flag.ExitOnError)
	seed := fs.Int64("seed", 1, "seed")
	rounds := fs.Int("rounds", 200, "rounds")
	out := fs.String("out", "", "trace ndjson")
	first := fs.Int("first", 1, "first trace id")
	fs.Parse(args)

	w := newNDWriter(*out)
	w.write(map[string]interface{}{"k": "meta", "family": "reassembler-conc", "mode": "free"})
	stats := map[string]int{}
	for round := 0; round < *rounds; round++ {
		rng := newRand(*seed, int64(*first+round))
		// yield points shake the interleaving
		yieldMod := uint32(1 + rng.Intn(4))
		var ycount uint32
		libaudit.VerifYield = func(string) {
			if atomic.AddUint32(&ycount, 1)%yieldMod == 0 {
				runtime.Gosched()
			}
		}
		st := &freeStream{reenter: []int{0, 0, 3, 7}[rng.Intn(4)], lostYield: []int{0, 1, 4, 9}[rng.Intn(4)]}
		stride := []int{1, 1, 2, 3}[rng.Intn(4)] // above 1 the pushers leave sequence numbers out: losses are reported while others push
		r, err := libaudit.NewReassembler(rng.Intn(4), 10000*time.Hour, st)
		if err != nil {
			fatal("NewReassembler: %v", err)
		}
		st.r = r
		pushers := 2 + rng.Intn(6)
		perPusher := 5 + rng.Intn(40)
		closers := 1 + rng.Intn(3)
		maintainers := rng.Intn(3)
		var clock int64
		var wg sync.WaitGroup
		startClose := make(chan struct{})
		stopMaint := make(chan struct{})
		slots := make([][]*freeSlot, pushers)
		type pushRec struct {
			id, off, typ int
			stamp        int64
		}
		pushed := make([][]pushRec, pushers)
		type closeRec struct {
			stamp int64
			ok    bool
		}
		closes := make([]closeRec, closers)
		closeAfter := rng.Intn(pushers * perPusher)
		// end game: every pusher holds its last push until all the others have only theirs left, and Close is
		// called at that moment - the last pushes, their callbacks and Close overlap and nothing comes afterwards
		endgame := rng.Intn(3) == 0
		lastGate := make(chan struct{})
		if endgame {
			closeAfter = pushers * (perPusher - 1)
		}
		var pushCount int64
		var panics int64
		guard := func(f func()) { // a panic in the library is an observation, not the end of the driver
			defer func() {
				if p := recover(); p != nil {
					atomic.AddInt64(&panics, 1)
				}
			}()
			f()
		}
		// the pushes are laid out beforehand (the Stream looks slots up by id while the round runs)
		type plannedPush struct {
			sl  *freeSlot
			off int
			typ int
		}
		plan := make([][]plannedPush, pushers)
		st.byID = map[int]*freeSlot{}
		for p := 0; p < pushers; p++ {
			prng := rand.New(rand.NewSource(rng.Int63()))
			for i := 0; i < perPusher; i++ {
				id := p*100000 + i + 1
				off := (i/2 + prng.Intn(2)) * stride // pushers share sequence numbers
				sl := &freeSlot{id: id, seq: uint32(0xFFFFFFF0) + uint32(off)}
				if p%2 == 1 { // every other pusher hands over raw text, as a netlink read loop does
					sl.raw = fmt.Sprintf("audit(1490137971.011:%d): vid=%d", sl.seq, id)
				}
				st.byID[id] = sl
				slots[p] = append(slots[p], sl)
				plan[p] = append(plan[p], plannedPush{sl, off, rsRandomType(prng)})
			}
		}
		for p := 0; p < pushers; p++ {
			wg.Add(1)
			go func(p int) {
				defer wg.Done()
				buf := make([]byte, 0, 128)
				for i, pp := range plan[p] {
					sl := pp.sl
					if endgame && i == len(plan[p])-1 {
						<-lastGate
					}
					if sl.raw != "" {
						buf = append(buf[:0], sl.raw...)
						guard(func() { r.Push(auparse.AuditMessageType(pp.typ), buf) })
						for j := range buf {
							buf[j] = 'x'
						}
					} else {
						m := &auparse.AuditMessage{
							RecordType: auparse.AuditMessageType(pp.typ),
							Timestamp:  time.Unix(1490137971, 0),
							Sequence:   sl.seq,
							Payload:    sl,
						}
						guard(func() { r.PushMessage(m) })
					}
					stamp := atomic.AddInt64(&clock, 1)
					pushed[p] = append(pushed[p], pushRec{sl.id, pp.off, pp.typ, stamp})
					if atomic.AddInt64(&pushCount, 1) == int64(closeAfter) {
						close(startClose)
						close(lastGate)
					}
				}
			}(p)
		}
		for c := 0; c < closers; c++ {
			wg.Add(1)
			go func(c int) {
				defer wg.Done()
				<-startClose
				stamp := atomic.AddInt64(&clock, 1)
				ok := false
				guard(func() { ok = r.Close() == nil })
				closes[c] = closeRec{stamp, ok}
			}(c)
		}
		var mwg sync.WaitGroup
		for m := 0; m < maintainers; m++ {
			mwg.Add(1)
			go func() {
				defer mwg.Done()
				for {
					select {
					case <-stopMaint:
						return
					default:
						guard(func() { r.Maintain() })
						runtime.Gosched()
					}
				}
			}()
		}
		if closeAfter == 0 {
			close(startClose)
			close(lastGate)
		}
		done := make(chan struct{})
		go func() { wg.Wait(); close(done) }()
		stuck := false
		select {
		case <-done:
		case <-time.After(20 * time.Second):
			stuck = true
		}
		close(stopMaint)
		if !stuck {
			mwg.Wait()
		}
		w.write(map[string]interface{}{"k": "reset", "trace": *first + round})
		if !stuck {
			for p := range pushed {
				for _, pr := range pushed[p] {
					w.write(map[string]interface{}{"k": "fpush", "id": pr.id, "off": pr.off, "type": pr.typ, "stamp": int(pr.stamp)})
					stats["pushes"]++
				}
			}
			for _, c := range closes {
				ret := "err"
				if c.ok {
					ret = "ok"
				}
				w.write(map[string]interface{}{"k": "fclose", "stamp": int(c.stamp), "ret": ret})
			}
			for p := range slots {
				for _, sl := range slots[p] {
					var cur []int
					for _, x := range sl.group {
						if x == -2 {
							w.write(map[string]interface{}{"k": "fdeliv", "ids": cur})
							stats["groups"]++
							cur = nil
						} else {
							cur = append(cur, x)
						}
					}
				}
			}
		}
		if !stuck {
			for _, ids := range st.stray {
				w.write(map[string]interface{}{"k": "fdeliv", "ids": ids})
			}
		}
		w.write(map[string]interface{}{"k": "end", "stuck": stuck, "panics": int(atomic.LoadInt64(&panics))})
		stats["rounds"]++
		stats["panics"] += int(panics)
		if stuck {
			stats["stuck"]++
			break
		}
	}
	w.close()
	printJSON(map[string]interface{}{"stats": stats})
	return 0
}

func init() {
	register("conc-run", concRunCmd)
	register("conc-free", concFreeCmd)
}
