package main

import (
	"encoding/json"
	"flag"
	"fmt"
	"math/rand"
	"os"
	"os/user"
	"path/filepath"
	"runtime"
	"strconv"
	"strings"
	"time"

	"github.com/elastic/go-libaudit/v2/rule"
	"github.com/elastic/go-libaudit/v2/rule/flags"
)

// ---- abstract rules (what the text asks for), in the shape AuditRule.tla reads -------------

type astItem struct {
	T    string `json:"t"` // F | C
	LHS  string `json:"lhs"`
	Op   string `json:"op"`
	VK   string `json:"vk"` // num | str | errno | msgname | arch | perm | ftype
	Num  U32    `json:"num"`
	Str  []int  `json:"str"`
	Name string `json:"name"`
	RHS  string `json:"rhs"`
	Neg  bool   `json:"neg"`
	Big  bool   `json:"big"` // the number written does not fit the 32-bit value word: no encoding exists
}

type astName struct {
	Arch string `json:"arch"`
	Name string `json:"name"`
}

type astSyscalls struct {
	All   bool      `json:"all"`
	Nums  []int     `json:"nums"`
	Names []astName `json:"names"`
	Big   bool      `json:"big"` // a number was written that no mask bit stands for (it may not even fit TLC's integers)
}

type astRule struct {
	Kind     string      `json:"kind"` // syscall | watch
	List     string      `json:"list"`
	Action   string      `json:"action"`
	Items    []astItem   `json:"items"`
	Syscalls astSyscalls `json:"syscalls"`
	Keys     [][]int     `json:"keys"`
	WPath    []int       `json:"wpath"`
	WType    string      `json:"wtype"`
	WPerm    []int       `json:"wperm"`
}

// a rule under construction: the abstract rule plus the arguments that ask for it
type ruleText struct {
	ast   astRule
	args  []string
	c07   bool   // inside C07's domain (no whitespace/quotes in values, watches agree with the filesystem)
	cls   string // class label for known-findings matching
	trace int
}

// structRule builds the rule.Rule value that asks for the same rule without
// going through the text parser: -a/-A/-S/-k/-w/-p arguments are taken from the
// argument list, filters from the abstract items (whose text is the argument
// minus field and operator).
func (rt *ruleText) structRule() rule.Rule {
	var list, action, path string
	var syscalls, keys []string
	var perms []rule.AccessType
	var specs []rule.FilterSpec
	typ := rule.AppendSyscallRuleType
	item := 0
	for i := 0; i+1 < len(rt.args); i += 2 {
		v := rt.args[i+1]
		switch rt.args[i] {
		case "-a", "-A":
			if rt.args[i] == "-A" {
				typ = rule.PrependSyscallRuleType
			}
			for _, p := range strings.Split(v, ",") {
				switch p {
				case "always", "never":
					action = p
				default:
					list = p
				}
			}
		case "-S":
			syscalls = append(syscalls, strings.Split(v, ",")...)
		case "-k":
			keys = append(keys, v)
		case "-w":
			path = v
		case "-p":
			for _, c := range v {
				perms = append(perms, map[rune]rule.AccessType{'r': rule.ReadAccessType, 'w': rule.WriteAccessType,
					'x': rule.ExecuteAccessType, 'a': rule.AttributeChangeAccessType}[c])
			}
		case "-F", "-C":
			it := rt.ast.Items[item]
			item++
			if rt.args[i] == "-C" {
				specs = append(specs, rule.FilterSpec{Type: rule.InterFieldFilterType, LHS: it.LHS, Comparator: it.Op, RHS: it.RHS})
			} else {
				specs = append(specs, rule.FilterSpec{Type: rule.ValueFilterType, LHS: it.LHS, Comparator: it.Op, RHS: v[len(it.LHS)+len(it.Op):]})
			}
		}
	}
	if rt.ast.Kind == "watch" {
		return &rule.FileWatchRule{Type: rule.FileWatchRuleType, Path: path, Permissions: perms, Keys: keys}
	}
	return &rule.SyscallRule{Type: typ, List: list, Action: action, Filters: specs, Syscalls: syscalls, Keys: keys}
}

func buildStruct(r rule.Rule) (o buildOutcome) {
	defer func() {
		if p := recover(); p != nil {
			o = buildOutcome{ret: "panic", err: fmt.Sprint(p)}
		}
	}()
	w, err := rule.Build(r)
	if err != nil {
		return buildOutcome{ret: "err", err: err.Error()}
	}
	return buildOutcome{ret: "ok", wire: w}
}

func newAst() astRule {
	return astRule{Kind: "syscall", Items: []astItem{}, Syscalls: astSyscalls{All: true, Nums: []int{}, Names: []astName{}},
		Keys: [][]int{}, WPath: []int{}, WPerm: []int{}, WType: "path"}
}

func numItem(lhs, op string, v uint32) astItem {
	return astItem{T: "F", LHS: lhs, Op: op, VK: "num", Num: limbs(v), Str: []int{}}
}
func strItem(lhs, op, s string) astItem {
	return astItem{T: "F", LHS: lhs, Op: op, VK: "str", Str: bytesOfS(s)}
}

type ruleEnv struct {
	tmp     string // scratch directory: file, dir
	file    string
	dir     string
	rng     *rand.Rand
	counter int
}

func newRuleEnv(seed int64) *ruleEnv {
	tmp, err := os.MkdirTemp("", "vrule")
	if err != nil {
		fatal("mkdtemp: %v", err)
	}
	e := &ruleEnv{tmp: tmp, rng: newRand(seed, 6)}
	e.file = filepath.Join(tmp, "afile")
	e.dir = filepath.Join(tmp, "adir")
	os.WriteFile(e.file, []byte("x"), 0o600)
	os.Mkdir(e.dir, 0o700)
	// names whose last component is a symbolic link: a directory or a file all the same (the kind is found by stat)
	os.Symlink("adir", filepath.Join(tmp, "dirlink"))
	os.Symlink(e.file, filepath.Join(tmp, "filelink"))
	return e
}

// aDir names the scratch directory, now and then through a symbolic link; aFile the scratch file likewise.
func (e *ruleEnv) aDir() string {
	if e.rng.Intn(3) == 0 {
		return filepath.Join(e.tmp, "dirlink")
	}
	return e.dir
}

func (e *ruleEnv) aFile() string {
	if e.rng.Intn(4) == 0 {
		return filepath.Join(e.tmp, "filelink")
	}
	return e.file
}

func (e *ruleEnv) close() { os.RemoveAll(e.tmp) }

var errnoNames = []string{"EPERM", "ENOENT", "ESRCH", "EINTR", "EIO", "ENXIO", "E2BIG", "ENOEXEC", "EBADF", "ECHILD", "EAGAIN",
	"ENOMEM", "EACCES", "EFAULT", "ENOTBLK", "EBUSY", "EEXIST", "EXDEV", "ENODEV", "ENOTDIR", "EISDIR", "EINVAL", "ENFILE",
	"EMFILE", "ENOTTY", "ETXTBSY", "EFBIG", "ENOSPC", "ESPIPE", "EROFS", "EMLINK", "EPIPE", "EDOM", "ERANGE", "ENAMETOOLONG",
	"ENOSYS", "ENOTEMPTY", "ELOOP", "ETIMEDOUT", "ECONNREFUSED"}
var msgNames = []string{"GET", "SET", "USER", "LOGIN", "USER_AVC", "USER_TTY", "SYSCALL", "PATH", "IPC", "SOCKETCALL",
	"CONFIG_CHANGE", "SOCKADDR", "CWD", "EXECVE", "EOE", "SECCOMP", "PROCTITLE", "AVC"}
var names64 = []string{"read", "write", "open", "close", "stat", "mmap", "ioctl", "access", "socket", "connect", "accept", "bind",
	"listen", "clone", "fork", "execve", "kill", "truncate", "ftruncate", "rename", "mkdir", "rmdir", "creat", "unlink", "chmod",
	"chown", "ptrace", "setuid", "mount", "init_module", "delete_module", "openat", "unlinkat", "accept4", "open_by_handle_at",
	"finit_module", "execveat"}
var names32 = []string{"exit", "fork", "read", "write", "open", "close", "creat", "link", "unlink", "execve", "chdir", "chmod",
	"mount", "setuid", "ptrace", "kill", "rename", "mkdir", "rmdir", "truncate", "ftruncate", "socketcall", "clone",
	"init_module", "delete_module", "openat", "open_by_handle_at", "execveat", "bind", "connect", "accept4",
	// old and new entry points that live side by side in the 32-bit table, and names that begin with an underscore
	"select", "_newselect", "_llseek", "_sysctl", "stat", "oldstat", "umount", "umount2", "mmap", "mmap2"}

// characters with no meaning to a shell-style splitter other than being themselves
// once quoted; no whitespace, quotes or backslash (C07's domain)
var specialChars = "=!<>&:;#$*()[]{}|~^?"

var safeChars = "abcdefghijklmnopqrstuvwxyzABCDEFGHIJKLMNOPQRSTUVWXYZ0123456789_-./:@%+,"

func (e *ruleEnv) word(n int, special bool) string {
	b := make([]byte, n)
	for i := range b {
		if special && e.rng.Intn(4) == 0 {
			b[i] = specialChars[e.rng.Intn(len(specialChars))]
		} else {
			b[i] = safeChars[e.rng.Intn(len(safeChars)-1)] // no comma inside plain words
		}
	}
	// the first character is plain: a leading '=' would merge with the operator
	// before it ("<" + "=a" reads as "<=" + "a"), a leading '-' looks like a flag
	if b[0] == '-' || strings.IndexByte(specialChars, b[0]) >= 0 {
		b[0] = 'x'
	}
	return string(b)
}

// utf8Word mixes multi-byte UTF-8 sequences (2, 3 and 4 bytes) into a word:
// the kernel counts bytes, not characters.
func (e *ruleEnv) utf8Word() string {
	parts := []string{"na\u00efve", "\u00fcbung", "\u65e5\u672c\u8a9e", "caf\u00e9", "\U0001F512", "\u03b1\u03b2\u03b3", "x"}
	var sb strings.Builder
	for i := 1 + e.rng.Intn(4); i > 0; i-- {
		sb.WriteString(parts[e.rng.Intn(len(parts))])
		sb.WriteString(e.word(1+e.rng.Intn(4), false))
	}
	return sb.String()
}

func renderNum(r *rand.Rand, v uint32, style string) string {
	switch style {
	case "hex":
		return fmt.Sprintf("0x%x", v)
	case "neg":
		return strconv.FormatInt(int64(int32(v)), 10)
	}
	return strconv.FormatUint(uint64(v), 10)
}

// filterFor instantiates one (field, operator, value class) into text and abstract item.
// inC07 reports whether the value stays inside C07's domain.
type bothName struct {
	name     string
	uid, gid uint32
}

// bothNames: names of /etc/passwd that os/user resolves as a user and as a group with different ids.
var bothNames = func() []bothName {
	var out []bothName
	data, err := os.ReadFile("/etc/passwd")
	if err != nil {
		return nil
	}
	for _, l := range strings.Split(string(data), "\n") {
		name := strings.SplitN(l, ":", 2)[0]
		if name == "" || strings.ContainsAny(name, " ,=<>!&'\"") {
			continue
		}
		u, err1 := user.Lookup(name)
		g, err2 := user.LookupGroup(name)
		if err1 != nil || err2 != nil {
			continue
		}
		ui, e1 := strconv.ParseUint(u.Uid, 10, 32)
		gi, e2 := strconv.ParseUint(g.Gid, 10, 32)
		if e1 == nil && e2 == nil && ui != gi {
			out = append(out, bothName{name, uint32(ui), uint32(gi)})
		}
	}
	return out
}()

func (e *ruleEnv) filterFor(field, op, vclass string) (arg string, it astItem, inC07 bool, arch string) {
	r := e.rng
	inC07 = true
	mk := func(text string, item astItem) (string, astItem, bool, string) {
		return field + op + text, item, inC07, arch
	}
	if vclass == "overflow" {
		// just outside what a 32-bit value word can hold
		text := []string{"4294967296", "4294967297", "0x100000000", "-2147483649", "99999999999", "-4294967296", "18446744073709551616"}[r.Intn(7)]
		it := numItem(field, op, 0)
		it.Big = true
		inC07 = false
		return mk(text, it)
	}
	switch field {
	case "uid", "euid", "suid", "fsuid", "auid", "obj_uid", "gid", "egid", "sgid", "fsgid", "obj_gid":
		switch vclass {
		case "zero":
			return mk("0", numItem(field, op, 0))
		case "small":
			v := uint32(1 + r.Intn(60000))
			return mk(strconv.Itoa(int(v)), numItem(field, op, v))
		case "max31":
			return mk("2147483647", numItem(field, op, 0x7fffffff))
		case "high":
			v := uint32(0x80000000) + uint32(r.Intn(0x7ffffffe))
			return mk(strconv.FormatUint(uint64(v), 10), numItem(field, op, v))
		case "unset":
			return mk("unset", numItem(field, op, 0xffffffff))
		case "minus1":
			return mk("-1", numItem(field, op, 0xffffffff))
		case "name_both":
			// a name that is both a user and a group, with different ids: what a uid field gets must not
			// depend on what a gid field got before (the ids are read through os/user here, as the library does)
			if len(bothNames) > 0 {
				b := bothNames[r.Intn(len(bothNames))]
				if strings.HasSuffix(field, "gid") {
					return mk(b.name, numItem(field, op, b.gid))
				}
				return mk(b.name, numItem(field, op, b.uid))
			}
			return mk("root", numItem(field, op, 0))
		default: // name_root: uid 0 / gid 0 are "root" on every Linux system
			return mk("root", numItem(field, op, 0))
		}
	case "exit":
		switch vclass {
		case "zero":
			return mk("0", numItem(field, op, 0))
		case "pos":
			v := uint32(1 + r.Intn(100000))
			if v <= 133 {
				v += 1000 // keep clear of errno numbers, which are printed by name
			}
			return mk(strconv.Itoa(int(v)), numItem(field, op, v))
		case "neg":
			v := 200 + r.Intn(1000000)
			return mk("-"+strconv.Itoa(v), numItem(field, op, uint32(-int32(v))))
		case "min":
			return mk("-2147483648", numItem(field, op, 0x80000000))
		case "errno_neg":
			n := errnoNames[r.Intn(len(errnoNames))]
			return mk("-"+n, astItem{T: "F", LHS: field, Op: op, VK: "errno", Name: n, Neg: true, Str: []int{}})
		default:
			n := errnoNames[r.Intn(len(errnoNames))]
			return mk(n, astItem{T: "F", LHS: field, Op: op, VK: "errno", Name: n, Str: []int{}})
		}
	case "msgtype":
		switch vclass {
		case "num":
			v := uint32(1000 + r.Intn(2000))
			return mk(strconv.Itoa(int(v)), numItem(field, op, v))
		case "high":
			v := uint32(65536 + r.Intn(1000000))
			return mk(strconv.Itoa(int(v)), numItem(field, op, v))
		case "octal": // numbers are read as strtoul(.., 0) reads them: a leading 0 means octal, 0x hexadecimal
			v := uint32(1000 + r.Intn(2000))
			return mk("0"+strconv.FormatUint(uint64(v), 8), numItem(field, op, v))
		case "hex":
			v := uint32(1000 + r.Intn(2000))
			return mk("0x"+strconv.FormatUint(uint64(v), 16), numItem(field, op, v))
		default:
			n := msgNames[r.Intn(len(msgNames))]
			return mk(n, astItem{T: "F", LHS: field, Op: op, VK: "msgname", Name: n, Str: []int{}})
		}
	case "arch":
		name := vclass
		switch vclass {
		case "b64":
			name = "x86_64" // on the amd64 host the checks run on
		case "b32":
			name = "i386"
		}
		arch = name
		return mk(vclass, astItem{T: "F", LHS: field, Op: op, VK: "arch", Name: name, Str: []int{}})
	case "perm":
		return mk(vclass, astItem{T: "F", LHS: field, Op: op, VK: "perm", Str: bytesOfS(vclass)})
	case "filetype":
		return mk(vclass, astItem{T: "F", LHS: field, Op: op, VK: "ftype", Name: vclass, Str: []int{}})
	case "saddr_fam":
		if vclass == "ten" {
			return mk("10", numItem(field, op, 10))
		}
		return mk("2", numItem(field, op, 2))
	case "path", "dir":
		// a name that agrees with the filesystem: path= a non-directory, dir= a directory
		base := e.aFile()
		if field == "dir" {
			base = e.aDir()
		}
		switch vclass {
		case "short":
			return mk(base, strItem(field, op, base))
		case "edges":
			p := filepath.Join(e.tmp, e.word(8, false)) + " " // does not exist: not a directory
			inC07 = false
			return mk(p, strItem(field, op, p))
		case "long", "max", "special", "utf8":
			if field == "dir" {
				return mk(base, strItem(field, op, base))
			}
			n := 40
			if vclass == "max" {
				n = 4096 - len(e.tmp) - 1
			}
			leaf := e.word(n, false)
			if vclass == "utf8" {
				leaf = e.utf8Word()
			}
			p := filepath.Join(e.tmp, leaf) // does not exist: not a directory
			p = strings.ReplaceAll(p, ",", "_")
			return mk(p, strItem(field, op, p))
		}
	}
	// remaining string fields
	switch field {
	case "subj_user", "subj_role", "subj_type", "subj_sen", "subj_clr", "obj_user", "obj_role", "obj_type",
		"obj_lev_low", "obj_lev_high", "exe":
		var s string
		switch vclass {
		case "short":
			s = e.word(1+r.Intn(8), false)
		case "long":
			s = e.word(100+r.Intn(400), false)
		case "max":
			s = e.word(4096, false)
		case "utf8":
			s = e.utf8Word()
		case "edges": // blanks at the edges belong to the value (C07 does not quote: outside its domain)
			s = []string{" ", "", "  "}[r.Intn(3)] + e.word(3+r.Intn(10), false) + []string{" ", "\t", ""}[r.Intn(3)]
			if strings.TrimSpace(s) == s {
				s += " "
			}
			inC07 = false
		default:
			s = e.word(5+r.Intn(30), true)
		}
		return mk(s, strItem(field, op, s))
	}
	// numeric fields
	var v uint32
	style := "dec"
	switch vclass {
	case "zero":
		v = 0
	case "one":
		v = 1
	case "dec":
		v = r.Uint32() >> uint(r.Intn(32))
	case "hex":
		v, style = r.Uint32(), "hex"
	case "neg":
		v, style = uint32(-int32(1+r.Intn(0x7ffffffe))), "neg"
	default:
		v = 0xffffffff
	}
	return mk(renderNum(r, v, style), numItem(field, op, v))
}

func (e *ruleEnv) keys(n int, special bool) ([]string, [][]int) {
	var ks []string
	out := [][]int{}
	for i := 0; i < n; i++ {
		k := e.word(1+e.rng.Intn(12), special)
		if e.rng.Intn(6) == 0 {
			k = e.utf8Word()
		}
		k = strings.ReplaceAll(k, ",", "_")
		ks = append(ks, k)
		out = append(out, bytesOfS(k))
	}
	return ks, out
}

// syscallShape fills in -S arguments. arch is the rule's architecture ("" = host).
func (e *ruleEnv) syscallShape(rt *ruleText, shape, arch string) {
	r := e.rng
	sc := &rt.ast.Syscalls
	add := func(s string) { rt.args = append(rt.args, "-S", s) }
	switch shape {
	case "none":
	case "all":
		add("all")
	case "all_then", "then_all":
		// "all" next to specific syscalls: every syscall is asked for, whatever the order
		n := strconv.Itoa(r.Intn(400))
		if shape == "all_then" {
			if r.Intn(2) == 0 {
				add("all," + n)
			} else {
				add("all")
				add(n)
			}
		} else {
			if r.Intn(2) == 0 {
				add(n + ",all")
			} else {
				add(n)
				add("all")
			}
		}
	case "one":
		n := r.Intn(2048)
		sc.All, sc.Nums = false, []int{n}
		add(strconv.Itoa(n))
	case "many":
		sc.All = false
		var parts []string
		for i := 2 + r.Intn(6); i > 0; i-- {
			n := r.Intn(2048)
			sc.Nums = append(sc.Nums, n)
			parts = append(parts, strconv.Itoa(n))
		}
		add(strings.Join(parts, ","))
	case "dense":
		sc.All = false
		var parts []string
		for i := 0; i < 200; i++ {
			n := r.Intn(2048)
			sc.Nums = append(sc.Nums, n)
			parts = append(parts, strconv.Itoa(n))
		}
		for _, chunk := range [][]string{parts[:100], parts[100:]} {
			add(strings.Join(chunk, ","))
		}
	case "high":
		sc.All = false
		var parts []string
		for _, n := range []int{2047, 2016 + r.Intn(31), 1024 + r.Intn(900)} {
			sc.Nums = append(sc.Nums, n)
			parts = append(parts, strconv.Itoa(n))
		}
		add(strings.Join(parts, ","))
	case "names64", "names32":
		sc.All = false
		table, a := names64, "x86_64"
		if shape == "names32" {
			table, a = names32, "i386"
		}
		if arch != "" && arch != a {
			// names are looked up in the rule's architecture: keep them consistent
			if arch == "i386" {
				table, a = names32, "i386"
			} else if arch == "x86_64" {
				table, a = names64, "x86_64"
			} else {
				n := r.Intn(400)
				sc.Nums = []int{n}
				add(strconv.Itoa(n))
				return
			}
		}
		if arch == "" && a == "i386" {
			// without an arch filter names resolve in the host's table
			table, a = names64, "x86_64"
		}
		var parts []string
		for i := 1 + r.Intn(5); i > 0; i-- {
			n := table[r.Intn(len(table))]
			sc.Names = append(sc.Names, astName{Arch: a, Name: n})
			parts = append(parts, n)
		}
		add(strings.Join(parts, ","))
	}
}

func (e *ruleEnv) addKeys(rt *ruleText, n int, special bool) {
	ks, ast := e.keys(n, special)
	rt.ast.Keys = ast
	for _, k := range ks {
		rt.args = append(rt.args, "-k", k)
	}
}

// instantiate turns a TLC case descriptor into concrete rules.
func (e *ruleEnv) instantiate(c map[string]interface{}) []*ruleText {
	r := e.rng
	str := func(k string) string { s, _ := c[k].(string); return s }
	num := func(k string) int { f, _ := c[k].(float64); return int(f) }
	lists := []string{"exit", "task", "user", "exclude"}
	actions := []string{"always", "never"}
	switch str("c") {
	case "fop":
		rt := &ruleText{ast: newAst(), cls: "fop:" + str("field") + ":" + str("vclass") + ":" + str("op")}
		rt.ast.List, rt.ast.Action = str("list"), actions[r.Intn(2)]
		first, second := rt.ast.Action, rt.ast.List
		if r.Intn(2) == 0 {
			first, second = second, first
		}
		rt.args = []string{"-a", first + "," + second}
		arg, it, in07, arch := e.filterFor(str("field"), str("op"), str("vclass"))
		rt.c07 = in07
		// other filters around it now and then
		if r.Intn(3) == 0 && rt.ast.List == "exit" {
			a2, i2, _, _ := e.filterFor("pid", "=", "dec")
			rt.args = append(rt.args, "-F", a2)
			rt.ast.Items = append(rt.ast.Items, i2)
		}
		rt.args = append(rt.args, "-F", arg)
		rt.ast.Items = append(rt.ast.Items, it)
		if rt.ast.List == "exit" || rt.ast.List == "task" {
			shapes := []string{"none", "all", "one", "many", "names64", "high"}
			e.syscallShape(rt, shapes[r.Intn(len(shapes))], arch)
		}
		if rt.ast.List != "exclude" {
			e.addKeys(rt, r.Intn(3), false)
		}
		return []*ruleText{rt}
	case "shape":
		rt := &ruleText{ast: newAst(), c07: true, cls: "shape:" + str("sc")}
		rt.ast.List, rt.ast.Action = str("list"), str("action")
		rt.args = []string{"-a", rt.ast.Action + "," + rt.ast.List}
		if r.Intn(2) == 0 {
			rt.args[0] = "-A" // prepend: same encoding
		}
		arch := ""
		if str("sc") == "names32" {
			arg, it, _, a := e.filterFor("arch", "=", "b32")
			rt.args = append(rt.args, "-F", arg)
			rt.ast.Items = append(rt.ast.Items, it)
			arch = a
		} else if r.Intn(3) == 0 {
			arg, it, _, a := e.filterFor("arch", "=", "b64")
			rt.args = append(rt.args, "-F", arg)
			rt.ast.Items = append(rt.ast.Items, it)
			arch = a
		}
		e.syscallShape(rt, str("sc"), arch)
		if rt.ast.List != "exclude" {
			e.addKeys(rt, num("nkeys"), false)
		}
		return []*ruleText{rt}
	case "cmp":
		rt := &ruleText{ast: newAst(), c07: true, cls: "cmp"}
		rt.ast.List, rt.ast.Action = "exit", actions[r.Intn(2)]
		rt.args = []string{"-a", rt.ast.Action + ",exit", "-C", str("lhs") + str("op") + str("rhs")}
		rt.ast.Items = []astItem{{T: "C", LHS: str("lhs"), Op: str("op"), RHS: str("rhs"), VK: "num", Str: []int{}}}
		e.syscallShape(rt, []string{"none", "all", "one", "names64"}[r.Intn(4)], "")
		e.addKeys(rt, r.Intn(2), false)
		return []*ruleText{rt}
	case "watch":
		rt := &ruleText{ast: newAst(), c07: true, cls: "watch"}
		rt.ast.Kind, rt.ast.WType = "watch", str("wtype")
		p := e.aFile()
		if rt.ast.WType == "dir" {
			p = e.aDir()
		} else if r.Intn(2) == 0 {
			p = filepath.Join(e.tmp, e.word(6+r.Intn(20), false))
			if r.Intn(3) == 0 {
				p = filepath.Join(e.tmp, e.utf8Word())
			}
			p = strings.ReplaceAll(p, ",", "_")
		}
		rt.ast.WPath = bytesOfS(p)
		rt.args = []string{"-w", p}
		perm := str("perm")
		if perm != "" {
			rt.args = append(rt.args, "-p", perm)
			rt.ast.WPerm = bytesOfS(perm)
		} else {
			rt.ast.WPerm = bytesOfS("rwxa")
		}
		e.addKeys(rt, num("nkeys"), false)
		return []*ruleText{rt}
	case "wlike":
		rt := &ruleText{ast: newAst(), c07: true, cls: "wlike"}
		rt.ast.List, rt.ast.Action = "exit", str("action")
		rt.args = []string{"-a", rt.ast.Action + ",exit"}
		parg, pit, _, _ := e.filterFor(str("pf"), str("pop"), "short")
		if sp := str("spell"); sp != "clean" {
			// the same file or directory, spelt unclean
			name := parg[len(str("pf"))+len(str("pop")):]
			switch sp {
			case "slash":
				if str("pf") == "dir" {
					name += "/"
				} else {
					name = filepath.Dir(name) + "//" + filepath.Base(name)
				}
			case "double":
				name = filepath.Dir(name) + "//" + filepath.Base(name)
			case "dot":
				name = filepath.Dir(name) + "/./" + filepath.Base(name)
			}
			parg = str("pf") + str("pop") + name
			pit = strItem(str("pf"), str("pop"), name)
		}
		marg, mit, _, _ := e.filterFor("perm", "=", str("permv"))
		switch str("perm") {
		case "before":
			rt.args = append(rt.args, "-F", marg, "-F", parg)
			rt.ast.Items = append(rt.ast.Items, mit, pit)
		case "after":
			rt.args = append(rt.args, "-F", parg, "-F", marg)
			rt.ast.Items = append(rt.ast.Items, pit, mit)
		default:
			rt.args = append(rt.args, "-F", parg)
			rt.ast.Items = append(rt.ast.Items, pit)
		}
		e.syscallShape(rt, str("sc"), "")
		if num("nkeys") == 3 {
			// one key that holds a comma, written as a filter: the -k flag would read two keys in it
			k := strings.ReplaceAll(e.word(1+r.Intn(5), false), ",", "_") + "," + strings.ReplaceAll(e.word(1+r.Intn(5), false), ",", "_")
			rt.args = append(rt.args, "-F", "key="+k)
			rt.ast.Items = append(rt.ast.Items, strItem("key", "=", k))
		} else {
			e.addKeys(rt, num("nkeys"), false)
		}
		return []*ruleText{rt}
	case "nfields":
		rt := &ruleText{ast: newAst(), c07: true, cls: "nfields"}
		rt.ast.List, rt.ast.Action = "exit", "always"
		rt.args = []string{"-a", "always,exit"}
		n, cmpAt := num("n"), str("cmp")
		for i := 0; i < n; i++ {
			if cmpAt == "all" || (cmpAt == "first" && i == 0) || (cmpAt == "last" && i == n-1) || (cmpAt == "last2" && i >= n-2) {
				p := [][2]string{{"uid", "euid"}, {"auid", "obj_uid"}, {"gid", "egid"}, {"euid", "fsuid"}, {"sgid", "fsgid"}}[r.Intn(5)]
				op := []string{"=", "!="}[r.Intn(2)]
				rt.args = append(rt.args, "-C", p[0]+op+p[1])
				rt.ast.Items = append(rt.ast.Items, astItem{T: "C", LHS: p[0], Op: op, RHS: p[1], VK: "num", Str: []int{}})
				continue
			}
			f := []string{"pid", "a0", "a1", "a2", "a3", "pers", "uid", "egid"}[r.Intn(8)]
			arg, it, _, _ := e.filterFor(f, []string{"=", "!=", "<", ">="}[r.Intn(4)], "small")
			if f != "uid" && f != "egid" {
				arg, it, _, _ = e.filterFor(f, []string{"=", "!=", "<", ">=", "&", "&="}[r.Intn(6)], "dec")
			}
			rt.args = append(rt.args, "-F", arg)
			rt.ast.Items = append(rt.ast.Items, it)
		}
		if b, _ := c["key"].(bool); b {
			e.addKeys(rt, 1+r.Intn(2), false)
		}
		return []*ruleText{rt}
	case "sysnum":
		rt := &ruleText{ast: newAst(), c07: true, cls: "sysnum"}
		rt.ast.List, rt.ast.Action = lists[r.Intn(2)], actions[r.Intn(2)]
		rt.args = []string{"-a", rt.ast.Action + "," + rt.ast.List}
		a, b := num("a"), num("b")
		rt.ast.Syscalls = astSyscalls{All: false, Nums: []int{a, b}, Names: []astName{}}
		rt.args = append(rt.args, "-S", fmt.Sprintf("%d,%d", a, b))
		return []*ruleText{rt}
	case "archnum":
		rt := &ruleText{ast: newAst(), c07: true, cls: "archnum:" + str("arch")}
		rt.ast.List, rt.ast.Action = "exit", actions[r.Intn(2)]
		rt.args = []string{"-a", rt.ast.Action + ",exit"}
		arg, it, _, _ := e.filterFor("arch", str("op"), str("arch"))
		rt.args = append(rt.args, "-F", arg)
		rt.ast.Items = append(rt.ast.Items, it)
		rt.ast.Syscalls = astSyscalls{All: false, Nums: []int{num("n"), num("m")}, Names: []astName{}}
		rt.args = append(rt.args, "-S", fmt.Sprintf("%d,%d", num("n"), num("m")))
		// the same filter with syscalls given by name: the architecture the rule names says which table the
		// names are looked up in, whatever the operator
		rn := &ruleText{ast: newAst(), c07: true, cls: "archname:" + str("arch") + ":" + str("op")}
		rn.ast.List, rn.ast.Action = "exit", rt.ast.Action
		rn.args = []string{"-a", rn.ast.Action + ",exit", "-F", arg}
		rn.ast.Items = append(rn.ast.Items, it)
		if a := it.Name; a == "i386" || a == "x86_64" {
			e.syscallShape(rn, "names64", a)
			return []*ruleText{rt, rn}
		}
		return []*ruleText{rt}
	case "twokeys":
		rt := &ruleText{ast: newAst(), c07: true, cls: "twokeys"}
		rt.ast.List, rt.ast.Action = "exit", "always"
		rt.args = []string{"-a", "always,exit"}
		if f := str("before"); f != "none" {
			vc := "dec"
			switch f {
			case "uid", "auid", "gid", "obj_uid":
				vc = "small"
			case "exit":
				vc = "pos"
			case "perm":
				vc = "wa"
			case "filetype":
				vc = "file"
			case "saddr_fam":
				vc = "two"
			case "subj_user", "subj_role", "subj_type", "subj_sen", "subj_clr", "obj_user", "obj_role", "obj_type", "obj_lev_low",
				"obj_lev_high", "exe", "path", "dir":
				vc = "short"
			}
			arg, it, in07, _ := e.filterFor(f, "=", vc)
			rt.c07 = in07
			rt.args = append(rt.args, "-F", arg)
			rt.ast.Items = append(rt.ast.Items, it)
		}
		nk := 0
		for _, ch := range str("form") {
			k := strings.ReplaceAll(e.word(1+r.Intn(8), false), ",", "_")
			if ch == 'F' {
				rt.args = append(rt.args, "-F", "key="+k)
				rt.ast.Items = append(rt.ast.Items, strItem("key", "=", k))
			} else {
				nk++
			}
		}
		e.syscallShape(rt, "all", "")
		e.addKeys(rt, nk, false)
		return []*ruleText{rt}
	case "sysprefix":
		rt := &ruleText{ast: newAst(), c07: true, cls: "sysprefix"}
		rt.ast.List, rt.ast.Action = str("list"), actions[r.Intn(2)]
		rt.args = []string{"-a", rt.ast.Action + "," + rt.ast.List}
		var nums []int
		var words []string
		for i := 0; i <= num("top"); i++ {
			nums = append(nums, i)
			words = append(words, strconv.Itoa(i))
		}
		rt.ast.Syscalls = astSyscalls{All: false, Nums: nums, Names: []astName{}}
		rt.args = append(rt.args, "-S", strings.Join(words, ","))
		return []*ruleText{rt}
	case "emptykey":
		rt := &ruleText{ast: newAst(), c07: true, cls: "emptykey"}
		if str("kind") == "watch" {
			rt.ast.Kind, rt.ast.WType = "watch", "path"
			rt.ast.WPath, rt.ast.WPerm = bytesOfS(e.file), bytesOfS("wa")
			rt.args = []string{"-w", e.file, "-p", "wa"}
		} else {
			rt.ast.List, rt.ast.Action = "exit", "always"
			rt.args = []string{"-a", "always,exit"}
			e.syscallShape(rt, "one", "")
		}
		rt.ast.Keys = [][]int{}
		for _, ch := range str("keys") {
			k := ""
			if ch == 'a' {
				k = strings.ReplaceAll(e.word(1+r.Intn(6), false), ",", "_")
			}
			rt.args = append(rt.args, "-k", k)
			rt.ast.Keys = append(rt.ast.Keys, bytesOfS(k))
		}
		return []*ruleText{rt}
	case "sysbig":
		rt := &ruleText{ast: newAst(), c07: false, cls: "sysbig"}
		rt.ast.List, rt.ast.Action = lists[r.Intn(2)], actions[r.Intn(2)]
		rt.args = []string{"-a", rt.ast.Action + "," + rt.ast.List}
		rt.ast.Syscalls = astSyscalls{All: false, Nums: []int{}, Names: []astName{}, Big: true}
		switch str("with") {
		case "before":
			rt.ast.Syscalls.Nums = []int{2}
			rt.args = append(rt.args, "-S", "2,"+str("v"))
		case "after":
			rt.ast.Syscalls.Nums = []int{3}
			rt.args = append(rt.args, "-S", str("v"), "-S", "3")
		default:
			rt.args = append(rt.args, "-S", str("v"))
		}
		return []*ruleText{rt}
	}
	return nil
}

// randomRule composes a rule of several random filters (binding B).
func (e *ruleEnv) randomRule() *ruleText {
	r := e.rng
	rt := &ruleText{ast: newAst(), c07: true, cls: "random"}
	if r.Intn(8) == 0 {
		rt.ast.Kind, rt.cls = "watch", "random-watch"
		p := e.aFile()
		rt.ast.WType = "path"
		if r.Intn(2) == 0 {
			p, rt.ast.WType = e.aDir(), "dir"
		}
		rt.ast.WPath = bytesOfS(p)
		rt.args = []string{"-w", p}
		perm := []string{"", "r", "w", "x", "a", "rw", "wa", "rwxa", "xa"}[r.Intn(9)]
		rt.ast.WPerm = bytesOfS("rwxa")
		if perm != "" {
			rt.args = append(rt.args, "-p", perm)
			rt.ast.WPerm = bytesOfS(perm)
		}
		e.addKeys(rt, r.Intn(3), false)
		return rt
	}
	list := []string{"exit", "exit", "exit", "task", "user", "exclude"}[r.Intn(6)]
	rt.ast.List, rt.ast.Action = list, []string{"always", "never"}[r.Intn(2)]
	rt.args = []string{"-a", rt.ast.Action + "," + list}
	pool := map[string][]string{
		"exit": {"pid", "ppid", "uid", "euid", "suid", "fsuid", "auid", "gid", "egid", "sgid", "fsgid", "obj_uid", "obj_gid", "pers",
			"a0", "a1", "a2", "a3", "exit", "success", "devmajor", "devminor", "inode", "filetype", "perm", "saddr_fam", "arch",
			"subj_user", "subj_role", "subj_type", "subj_sen", "subj_clr", "obj_user", "obj_role", "obj_type", "obj_lev_low",
			"obj_lev_high", "exe", "path", "dir"},
		"task":    {"pid", "uid", "euid", "suid", "fsuid", "auid", "gid", "egid", "sgid", "fsgid", "pers", "subj_user", "subj_role", "arch", "exe"},
		"user":    {"pid", "uid", "gid", "auid", "msgtype", "subj_user", "subj_type", "exe"},
		"exclude": {"pid", "uid", "gid", "auid", "msgtype", "subj_user", "subj_role", "subj_type", "subj_sen", "subj_clr", "exe"},
	}[list]
	vclasses := map[string][]string{
		"uid": {"zero", "small", "max31", "high", "unset", "minus1", "name_root", "name_both"}, "str": {"short", "long", "special", "utf8"},
		"num": {"zero", "one", "dec", "hex", "neg", "max", "overflow"}, "exit": {"zero", "pos", "neg", "errno_neg", "errno_pos", "min"},
		"msgtype": {"num", "name", "high"}, "arch": {"b64", "b32", "x86_64", "i386", "aarch64", "arm", "ppc64", "s390x"},
		"perm": {"r", "w", "x", "a", "rw", "wa", "rwxa"}, "filetype": {"file", "dir", "socket", "symlink", "char", "block", "fifo"},
		"saddr_fam": {"two", "ten"},
	}
	ops := []string{"=", "!=", "<", ">", "<=", ">=", "&", "&="}
	arch := ""
	n := r.Intn(6)
	for i := 0; i < n; i++ {
		f := pool[r.Intn(len(pool))]
		cls := "num"
		switch f {
		case "uid", "euid", "suid", "fsuid", "auid", "obj_uid", "gid", "egid", "sgid", "fsgid", "obj_gid":
			cls = "uid"
		case "exit", "msgtype", "arch", "perm", "filetype", "saddr_fam":
			cls = f
		case "pid", "ppid", "pers", "a0", "a1", "a2", "a3", "success", "devmajor", "devminor", "inode":
			cls = "num"
		default:
			cls = "str"
		}
		op := ops[r.Intn(len(ops))]
		if f == "arch" || f == "inode" {
			op = ops[r.Intn(2)]
		}
		if f == "perm" {
			op = "="
		}
		if f == "arch" && arch != "" {
			continue
		}
		vc := vclasses[cls][r.Intn(len(vclasses[cls]))]
		arg, it, in07, a := e.filterFor(f, op, vc)
		if a != "" {
			arch = a
		}
		rt.c07 = rt.c07 && in07
		rt.args = append(rt.args, "-F", arg)
		rt.ast.Items = append(rt.ast.Items, it)
	}
	if list != "exclude" && r.Intn(5) == 0 {
		// a key given as a filter, anywhere among the others (and -k keys may follow): a string field like any other
		k := strings.ReplaceAll(e.word(1+r.Intn(10), false), ",", "_")
		j := r.Intn(len(rt.ast.Items) + 1)
		rt.ast.Items = append(rt.ast.Items[:j], append([]astItem{strItem("key", "=", k)}, rt.ast.Items[j:]...)...)
		at := 2 + 2*j
		rt.args = append(rt.args[:at], append([]string{"-F", "key=" + k}, rt.args[at:]...)...)
	}
	if (list == "exit" || list == "task") && r.Intn(3) > 0 {
		e.syscallShape(rt, []string{"all", "one", "many", "names64", "high", "none", "all_then", "then_all"}[r.Intn(8)], arch)
	}
	if list != "exclude" {
		e.addKeys(rt, r.Intn(4), false)
	}
	return rt
}

// ---- running the library ---------------------------------------------------------------------------

func shellQuote(args []string) string {
	var out []string
	for _, a := range args {
		safe := a != ""
		for _, c := range a {
			if !strings.ContainsRune(safeChars, c) && c != '=' {
				safe = false
			}
		}
		if safe {
			out = append(out, a)
		} else {
			out = append(out, "'"+strings.ReplaceAll(a, "'", `'\''`)+"'")
		}
	}
	return strings.Join(out, " ")
}

type buildOutcome struct {
	ret  string // ok | err | panic
	wire []byte
	err  string
}

func parseAndBuild(line string) (o buildOutcome) {
	defer func() {
		if p := recover(); p != nil {
			o = buildOutcome{ret: "panic", err: fmt.Sprint(p)}
		}
	}()
	r, err := flags.Parse(line)
	if err != nil {
		return buildOutcome{ret: "err", err: err.Error()}
	}
	w, err := rule.Build(r)
	if err != nil {
		return buildOutcome{ret: "err", err: err.Error()}
	}
	return buildOutcome{ret: "ok", wire: w}
}

func toCmd(w []byte) (text string, ret string) {
	defer func() {
		if p := recover(); p != nil {
			text, ret = "", "panic"
		}
	}()
	s, err := rule.ToCommandLine(rule.WireFormat(w), false)
	if err != nil {
		return err.Error(), "err"
	}
	return s, "ok"
}

func roundTrip(wire []byte) map[string]interface{} {
	rec := map[string]interface{}{"k": "round", "wire": bytesOf(wire), "ok1": false, "ok2": false, "ok3": false, "ok4": false,
		"text": []int{}, "wire2": []int{}, "text2": []int{}, "panic": false, "detail": ""}
	t1, r1 := toCmd(wire)
	if r1 == "panic" {
		rec["panic"] = true
		return rec
	}
	if r1 != "ok" {
		rec["detail"] = t1
		return rec
	}
	rec["ok1"], rec["text"] = true, bytesOfS(t1)
	rec["texts"] = t1
	var r2 rule.Rule
	var err error
	func() {
		defer func() {
			if p := recover(); p != nil {
				rec["panic"] = true
			}
		}()
		r2, err = flags.Parse(t1)
		if err != nil {
			rec["detail"] = err.Error()
			return
		}
		rec["ok2"] = true
		w2, err := rule.Build(r2)
		if err != nil {
			rec["detail"] = err.Error()
			return
		}
		rec["ok3"], rec["wire2"] = true, bytesOf(w2)
		t2, r := toCmd(w2)
		if r == "panic" {
			rec["panic"] = true
			return
		}
		if r == "ok" {
			rec["ok4"], rec["text2"] = true, bytesOfS(t2)
		}
	}()
	return rec
}

func allocKiB(f func()) int {
	var a, b runtime.MemStats
	runtime.ReadMemStats(&a)
	f()
	runtime.ReadMemStats(&b)
	return int((b.TotalAlloc - a.TotalAlloc) / 1024)
}

// rule-run: build / round / flags records from TLC's cases plus random rules.
func ruleRunCmd(args []string) int {
	fs := flag.NewFlagSet("rule-run", flag.ExitOnError)
	cases := fs.String("cases", "", "case descriptors from TLC (ndjson)")
	out := fs.String("out", "", "trace ndjson")
	seed := fs.Int64("seed", 1, "seed")
	reps := fs.Int("reps", 1, "instantiations per case")
	random := fs.Int("random", 0, "additional random rules")
	round := fs.Bool("round", false, "also run the C07 round trip on accepted rules")
	fs.Parse(args)

	env := newRuleEnv(*seed)
	defer env.close()
	w := newNDWriter(*out)
	w.write(map[string]interface{}{"k": "meta", "family": "rule"})
	stats := map[string]int{}
	trace := 0
	// what Build returned stays what it was: every result is kept and read again at the end
	type keptBuild struct {
		trace      int
		wire, snap []byte
	}
	var keptBuilds []keptBuild
	run := func(rt *ruleText) {
		trace++
		line := shellQuote(rt.args)
		var o buildOutcome
		kib := allocKiB(func() { o = parseAndBuild(line) })
		if o.ret == "ok" {
			keptBuilds = append(keptBuilds, keptBuild{trace, o.wire, append([]byte(nil), o.wire...)})
		}
		rec := map[string]interface{}{"k": "build", "trace": trace, "cls": rt.cls, "ast": rt.ast, "line": line, "ret": o.ret,
			"wire": bytesOf(o.wire), "err": o.err, "c07": rt.c07}
		w.write(rec)
		w.write(map[string]interface{}{"k": "total", "trace": trace, "cls": rt.cls, "fn": "build", "ret": o.ret, "alloc_kib": kib,
			"inlen": len(line), "wire": []int{}, "line": line})
		stats["rules"]++
		stats["build_"+o.ret]++
		// the same rule given to Build as a Rule value (no text parser in the way)
		os2 := buildStruct(rt.structRule())
		w.write(map[string]interface{}{"k": "build", "trace": trace, "cls": rt.cls, "via": "struct", "ast": rt.ast, "line": line,
			"ret": os2.ret, "wire": bytesOf(os2.wire), "err": os2.err, "c07": rt.c07})
		stats["struct_build_"+os2.ret]++
		// and the same rule value built again, as a caller does to delete what it added: Build is a function of the rule
		if os2.ret == "ok" {
			sr := rt.structRule()
			buildStruct(sr)
			buildStruct(sr)
			os3 := buildStruct(sr)
			w.write(map[string]interface{}{"k": "build", "trace": trace, "cls": rt.cls, "via": "struct-again", "ast": rt.ast, "line": line,
				"ret": os3.ret, "wire": bytesOf(os3.wire), "err": os3.err, "c07": rt.c07})
			if pr, err := flags.Parse(line); err == nil {
				buildStruct(pr)
				os4 := buildStruct(pr)
				w.write(map[string]interface{}{"k": "build", "trace": trace, "cls": rt.cls, "via": "parsed-again", "ast": rt.ast, "line": line,
					"ret": os4.ret, "wire": bytesOf(os4.wire), "err": os4.err, "c07": rt.c07})
			}
			stats["rebuilds"]++
		}
		if *round && rt.c07 {
			wire := o.wire
			if o.ret != "ok" {
				wire = os2.wire
			}
			if o.ret == "ok" || os2.ret == "ok" {
				rr := roundTrip(wire)
				rr["trace"], rr["cls"], rr["line"] = trace, rt.cls, line
				w.write(rr)
				stats["round_trips"]++
			}
		}
	}
	if *cases != "" {
		readND(*cases, func(line []byte) {
			var c map[string]interface{}
			if err := json.Unmarshal(line, &c); err != nil {
				fatal("bad case: %v", err)
			}
			for i := 0; i < *reps; i++ {
				for _, rt := range env.instantiate(c) {
					run(rt)
				}
			}
		})
	}
	for i := 0; i < *random; i++ {
		run(env.randomRule())
	}
	changed, firstChanged := 0, 0
	for _, kb := range keptBuilds {
		if string(kb.wire) != string(kb.snap) {
			changed++
			if firstChanged == 0 {
				firstChanged = kb.trace
			}
		}
	}
	w.write(map[string]interface{}{"k": "kept", "trace": firstChanged, "kept": len(keptBuilds), "changed": changed})
	w.close()
	printJSON(map[string]interface{}{"stats": stats})
	return 0
}

func init() {
	register("rule-run", ruleRunCmd)
	_ = time.Now
}
