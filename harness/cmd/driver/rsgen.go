package main

import (
	"flag"
	"math/rand"
)

var (
	rsPlainTypes      = []int{1300, 1302, 1303, 1306, 1307, 1309, 1319, 1321, 1326, 1328, 1400, 1700, 2000, 2099}
	rsCompletingTypes = []int{1327, 1299, 1000, 1100, 1105, 1199, 1, 2100, 2101, 2404, 2999, 65535}
	rsWindow          = 1<<24 - 1 // offsets stay below this (one sort window)
)

func pick(r *rand.Rand, xs []int) int { return xs[r.Intn(len(xs))] }

func rsRandomType(r *rand.Rand) int {
	switch x := r.Intn(100); {
	case x < 58:
		return pick(r, rsPlainTypes)
	case x < 80:
		return pick(r, rsCompletingTypes)
	default:
		return 1320
	}
}

// genRSBehaviour draws one random call history.  mode: "inf" (timeout never
// fires: C10's exact causes), "timed" (negative/zero/millisecond timeouts with
// real sleeps: C19), "mix".
func genRSBehaviour(r *rand.Rand, trace, length int, mode string) *rsBehaviour {
	b := &rsBehaviour{Trace: trace, Src: "random"}
	b.Max = []int{0, 0, 1, 1, 2, 2, 3, 4, 5, 8}[r.Intn(10)]
	timed := mode == "timed" || (mode == "mix" && r.Intn(2) == 0)
	sleepy := false
	if timed {
		b.Timed = true
		switch r.Intn(6) {
		case 0:
			b.TimeoutUs = -1000000
		case 1:
			b.TimeoutUs = 0
		case 2:
			b.TimeoutUs, sleepy = 3000, true
		case 3:
			b.TimeoutUs, sleepy = 8000, true
		case 4:
			b.TimeoutUs, sleepy = 20000, true
		default:
			b.Tinf = true
		}
	} else {
		b.Tinf = true
	}
	b.InfKind = r.Intn(5)
	// "wide" histories use both ends of the 2^24 window: logical offsets at or
	// above the pivot are shifted so that the highest one is exactly 2^24-1
	// above offset 0 (the largest difference that is not a roll-over).
	wide, pivot, top := r.Intn(6) == 0, 2+r.Intn(6), 12+r.Intn(10)
	shift := func(off int) int {
		if !wide {
			return off
		}
		if off > top {
			off = top
		}
		if off >= pivot {
			return off + (1<<24 - 1) - top
		}
		return off
	}
	switch r.Intn(8) {
	case 0:
		b.Base = limbs(0)
	case 1:
		b.Base = limbs(1)
	case 2:
		b.Base = limbs(0xFFFFFFFF)
	case 3:
		b.Base = limbs(0xFFFFFFFE)
	case 4, 5:
		b.Base = limbs(uint32(0x100000000 - int64(1+r.Intn(40))))
	default:
		b.Base = limbs(r.Uint32())
	}

	cursor := r.Intn(3)
	high := cursor // highest offset used so far
	closed := false
	budget := rsWindow - 40*length // room for one big jump
	for len(b.Ops) < length {
		x := r.Intn(100)
		switch {
		case x < 62:
			off := cursor
			switch y := r.Intn(100); {
			case y < 45:
			case y < 65:
				off = cursor - 1 - r.Intn(4)
			case y < 82:
				cursor++
				off = cursor
			case y < 93:
				cursor += 2 + r.Intn(11)
				off = cursor
			case y < 98:
				off = cursor - 5 - r.Intn(26)
			case y < 99:
				// restart of the sequence: a burst of low offsets follows
				cursor = r.Intn(3)
				off = cursor
			default:
				if budget > 0 && high < 1000 && !wide {
					cursor += 1 + r.Intn(budget)
					budget = 0
					off = cursor
				}
			}
			if off < 0 {
				off = 0
			}
			if off > high {
				high = off
			}
			if wide && cursor > top {
				cursor = top
			}
			op := rsOp{Op: "push", Off: shift(off), Type: rsRandomType(r)}
			if r.Intn(12) == 0 {
				op.Op = "pushraw"
				op.Bad = r.Intn(4) == 0
			}
			if closed && r.Intn(4) != 0 {
				continue // pushes after Close are outside C01's domain; keep them rare
			}
			b.Ops = append(b.Ops, op)
		case x < 65:
			b.Ops = append(b.Ops, rsOp{Op: "pushnil"})
		case x < 80:
			b.Ops = append(b.Ops, rsOp{Op: "maintain"})
		case x < 92:
			if sleepy {
				b.Ops = append(b.Ops, rsOp{Op: "sleep", Us: 500 + r.Intn(11500)})
			} else if timed {
				b.Ops = append(b.Ops, rsOp{Op: "sleep", Us: 1 + r.Intn(300)})
			}
		case x < 93:
			if len(b.Ops) > length*3/4 || r.Intn(6) == 0 {
				b.Ops = append(b.Ops, rsOp{Op: "close"})
				closed = true
			}
		case x < 94:
			b.Ops = append(b.Ops, rsOp{Op: "newnil"})
		default:
			// an event in one go: records then a terminator
			cursor++
			if wide && cursor > top {
				cursor = top
			}
			if cursor > high {
				high = cursor
			}
			n := 1 + r.Intn(4)
			for i := 0; i < n; i++ {
				b.Ops = append(b.Ops, rsOp{Op: "push", Off: shift(cursor), Type: pick(r, rsPlainTypes)})
			}
			if r.Intn(3) > 0 {
				b.Ops = append(b.Ops, rsOp{Op: "push", Off: shift(cursor), Type: 1320})
			}
		}
	}
	if r.Intn(20) != 0 {
		b.Ops = append(b.Ops, rsOp{Op: "close"})
		if r.Intn(3) == 0 {
			b.Ops = append(b.Ops, rsOp{Op: "maintain"}, rsOp{Op: "close"})
		}
	}
	return b
}

// rs-gen: write random behaviours.
func rsGen(args []string) int {
	fs := flag.NewFlagSet("rs-gen", flag.ExitOnError)
	seed := fs.Int64("seed", 1, "seed")
	n := fs.Int("n", 100, "number of behaviours")
	length := fs.Int("len", 60, "operations per behaviour")
	mode := fs.String("mode", "inf", "inf | timed | mix")
	first := fs.Int("first", 1, "first trace id")
	out := fs.String("out", "", "output ndjson")
	fs.Parse(args)
	w := newNDWriter(*out)
	for i := 0; i < *n; i++ {
		r := newRand(*seed, int64(*first+i))
		w.write(genRSBehaviour(r, *first+i, *length, *mode))
	}
	w.close()
	return 0
}

func init() { register("rs-gen", rsGen) }
