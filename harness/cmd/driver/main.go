// Command driver is the Go side of the /verif conformance harness: it drives
// the real go-libaudit code (built from /repo's working tree with -tags verif)
// and writes ndjson traces that TLC judges with the TLA+ monitors, or replays
// behaviours that TLC generated from the TLA+ models.
package main

import (
	"fmt"
	"os"
)

type subcommand func(args []string) int

var subcommands = map[string]subcommand{}

func register(name string, f subcommand) { subcommands[name] = f }

func main() {
	if len(os.Args) < 2 {
		fmt.Fprintln(os.Stderr, "usage: driver <subcommand> [flags]")
		os.Exit(2)
	}
	f, ok := subcommands[os.Args[1]]
	if !ok {
		fmt.Fprintf(os.Stderr, "unknown subcommand %q\n", os.Args[1])
		os.Exit(2)
	}
	os.Exit(f(os.Args[2:]))
}
