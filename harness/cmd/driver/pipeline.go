package main

import (
	"bufio"
	"flag"
	"fmt"
	"math/rand"
	"os"
	"os/exec"
	"path/filepath"
	"strings"
	"time"

	libaudit "github.com/elastic/go-libaudit/v2"
	"github.com/elastic/go-libaudit/v2/aucoalesce"
	"github.com/elastic/go-libaudit/v2/auparse"
)

// ---- the cmd/auparse pipeline, driven through the library -----------------------------------

type pipeLine struct {
	id   int
	ok   bool // the header is well-formed by construction
	off  int
	typ  int
	text string
}

// genPipeLog builds a log: events (record groups) with consecutive sequence numbers whose
// lines are interleaved within a small window, malformed lines in between, gaps.
func genPipeLog(r *rand.Rand, base uint32, nEvents int) []pipeLine {
	type pending struct {
		off   int
		specs []recSpec
	}
	var open []pending
	var lines []pipeLine
	id := 0
	off := 0
	emit := func(p *pending) {
		s := p.specs[0]
		p.specs = p.specs[1:]
		id++
		name := auparse.AuditMessageType(s.typ).String()
		text := fmt.Sprintf("type=%s msg=audit(%d.%03d:%d): %s vid=%d", name, 1490137971+p.off, 11, base+uint32(p.off), s.body, id)
		lines = append(lines, pipeLine{id: id, ok: true, off: p.off, typ: s.typ, text: text})
	}
	for ev := 0; ev < nEvents || len(open) > 0; {
		if ev < nEvents && (len(open) == 0 || (len(open) < 3 && r.Intn(2) == 0)) {
			specs, _ := randomGroup(r)
			if r.Intn(10) == 0 {
				off += 1 + r.Intn(5) // lost events
			}
			open = append(open, pending{off: off, specs: specs})
			off++
			ev++
			continue
		}
		i := r.Intn(len(open))
		emit(&open[i])
		if len(open[i].specs) == 0 {
			open = append(open[:i], open[i+1:]...)
		}
		if r.Intn(12) == 0 {
			id++
			bad := []string{"", "garbage line", "type=SYSCALL msg=audit(12x.3:4): a=1", "type=NOSUCH msg=audit(1.002:3): a=1",
				"type=PATH msg=audit(1.002:3 a=1", "msg=audit(1.002:3): no type"}[r.Intn(6)]
			lines = append(lines, pipeLine{id: id, ok: false, text: bad})
		}
	}
	return lines
}

type pipeStream struct {
	ids map[*auparse.AuditMessage]int
	w   *ndWriter
	off func(seq uint32) int
}

func (s *pipeStream) ReassemblyComplete(msgs []*auparse.AuditMessage) {
	ids := []int{}
	for _, m := range msgs {
		if id, ok := s.ids[m]; ok {
			ids = append(ids, id)
		} else if mm := vidRe.FindStringSubmatch(m.RawData); mm != nil {
			var id int
			fmt.Sscan(mm[1], &id)
			ids = append(ids, id)
		} else {
			ids = append(ids, -1)
		}
	}
	rec := map[string]interface{}{"k": "out", "ids": ids, "ret": "err", "ev_off": -1, "ev_type": 0}
	func() {
		defer func() {
			if p := recover(); p != nil {
				rec["ret"] = "panic"
			}
		}()
		ev, err := aucoalesce.CoalesceMessages(msgs)
		if err == nil && ev != nil {
			rec["ret"], rec["ev_off"], rec["ev_type"] = "event", s.off(ev.Sequence), int(ev.Type)
		}
	}()
	s.w.write(rec)
}

func (s *pipeStream) EventsLost(int) {}

func pipelineRunCmd(args []string) int {
	fs := flag.NewFlagSet("pipeline-run", flag.ExitOnError)
	out := fs.String("out", "", "trace ndjson")
	seed := fs.Int64("seed", 1, "seed")
	n := fs.Int("n", 50, "generated logs")
	cmdRuns := fs.Int("cmd", 5, "logs also run through the real cmd/auparse binary")
	repo := fs.String("repo", "/repo", "repository root")
	fs.Parse(args)
	rng := newRand(*seed, 21)
	w := newNDWriter(*out)
	w.write(map[string]interface{}{"k": "meta", "family": "pipeline"})
	stats := map[string]int{}
	trace := 0
	for i := 0; i < *n; i++ {
		base := []uint32{0, 1, 0xFFFFFFF0, 0xFFFFFFFE, rng.Uint32()}[rng.Intn(5)]
		lines := genPipeLog(rng, base, 5+rng.Intn(30))
		trace++
		w.write(map[string]interface{}{"k": "reset", "trace": trace})
		st := &pipeStream{ids: map[*auparse.AuditMessage]int{}, w: w, off: func(seq uint32) int { return int(seq - base) }}
		maxInFlight := []int{0, 1, 2, 5, 5, 10}[rng.Intn(6)]
		r, err := libaudit.NewReassembler(maxInFlight, 10000*time.Hour, st)
		if err != nil {
			fatal("NewReassembler: %v", err)
		}
		for _, l := range lines {
			w.write(map[string]interface{}{"k": "line", "id": l.id, "ok": l.ok, "off": l.off, "type": l.typ})
			m, perr := auparse.ParseLogLine(l.text)
			if perr == nil && m != nil {
				st.ids[m] = l.id
			}
			r.PushMessage(m) // cmd/auparse pushes whatever ParseLogLine returned, also nil
			if rng.Intn(6) == 0 {
				r.Maintain()
			}
			stats["lines"]++
		}
		r.Close()
		w.write(map[string]interface{}{"k": "closed"})
		stats["logs"]++
	}

	// the real binary, in its raw (non-interpreting) mode: groups of "type=X msg=..." lines after "---"
	if *cmdRuns > 0 {
		tmp, err := os.MkdirTemp("", "vpipe")
		if err != nil {
			fatal("mkdtemp: %v", err)
		}
		defer os.RemoveAll(tmp)
		bin := filepath.Join(tmp, "auparse")
		build := exec.Command("go", "build", "-o", bin, "./cmd/auparse")
		build.Dir = *repo
		build.Env = append(os.Environ(), "GOFLAGS=-mod=mod", "GOPROXY=off", "GOSUMDB=off", "GOTOOLCHAIN=local")
		if outb, err := build.CombinedOutput(); err != nil {
			fatal("cannot build cmd/auparse: %v\n%s", err, outb)
		}
		for i := 0; i < *cmdRuns; i++ {
			base := []uint32{5, 0xFFFFFFF0, rng.Uint32()}[rng.Intn(3)]
			lines := genPipeLog(rng, base, 10+rng.Intn(40))
			in := filepath.Join(tmp, fmt.Sprintf("in%d.log", i))
			var sb strings.Builder
			for _, l := range lines {
				sb.WriteString(l.text)
				sb.WriteByte('\n')
			}
			os.WriteFile(in, []byte(sb.String()), 0o600)
			outp := filepath.Join(tmp, fmt.Sprintf("out%d.txt", i))
			c := exec.Command(bin, "-in", in, "-out", outp)
			if outb, err := c.CombinedOutput(); err != nil {
				fatal("cmd/auparse failed: %v\n%s", err, outb)
			}
			trace++
			w.write(map[string]interface{}{"k": "reset", "trace": trace})
			byID := map[int]pipeLine{}
			for _, l := range lines {
				w.write(map[string]interface{}{"k": "line", "id": l.id, "ok": l.ok, "off": l.off, "type": l.typ})
				byID[l.id] = l
			}
			f, _ := os.Open(outp)
			sc := bufio.NewScanner(f)
			sc.Buffer(make([]byte, 1<<20), 1<<24)
			var cur []int
			flush := func() {
				if cur != nil {
					first := byID[cur[0]]
					// raw mode does not coalesce: report the group as the monitor's coalescer would see it
					ret := "event"
					if len(cur) > 1 {
						has := false
						for _, id := range cur {
							has = has || byID[id].typ == 1300
						}
						if !has {
							ret = "err"
						}
					}
					w.write(map[string]interface{}{"k": "out", "ids": cur, "ret": ret, "ev_off": first.off, "ev_type": first.typ, "via": "cmd"})
				}
				cur = nil
			}
			for sc.Scan() {
				t := sc.Text()
				if t == "---" {
					flush()
					cur = []int{}
					continue
				}
				if mm := vidRe.FindStringSubmatch(t); mm != nil {
					var id int
					fmt.Sscan(mm[1], &id)
					cur = append(cur, id)
				} else if strings.HasPrefix(t, "type=") {
					cur = append(cur, -1)
				}
			}
			flush()
			f.Close()
			w.write(map[string]interface{}{"k": "closed"})
			stats["cmd_runs"]++
		}
	}
	w.close()
	printJSON(map[string]interface{}{"stats": stats})
	return 0
}

// ---- the cmd/audit daemon: start-up requests, then Receive -> type filter -> Reassembler.Push ----

func daemonRunCmd(args []string) int {
	fs := flag.NewFlagSet("daemon-run", flag.ExitOnError)
	out := fs.String("out", "", "trace ndjson")
	seed := fs.Int64("seed", 1, "seed")
	n := fs.Int("n", 50, "runs")
	fs.Parse(args)
	rng := newRand(*seed, 22)
	w := newNDWriter(*out)
	w.write(map[string]interface{}{"k": "meta", "family": "pipeline"})
	stats := map[string]int{}
	for run := 1; run <= *n; run++ {
		base := []uint32{3, 0xFFFFFFF5, rng.Uint32()}[rng.Intn(3)]
		lines := genPipeLog(rng, base, 5+rng.Intn(25))
		k := newSimKernel()
		c := &libaudit.AuditClient{Netlink: k}
		// start-up as cmd/audit does it: status, then NoWait settings and SetPID; their ACKs
		// arrive later, in the middle of the event stream
		k.plan = [][]simFrame{{ackFrame(0), {K: "msg", Type: 1000, Rel: "own", Payload: make([]int, 44)}}}
		k.nreq = 0
		if _, err := c.GetStatus(); err != nil {
			fatal("daemon start-up: GetStatus: %v", err)
		}
		k.plan, k.nreq = nil, 0
		c.SetRateLimit(0, libaudit.NoWait)
		c.SetBacklogLimit(8192, libaudit.NoWait)
		c.SetPID(libaudit.NoWait)
		acks := []wireFrame{}
		for s := uint32(2); s <= 4; s++ {
			b := make([]byte, 20)
			acks = append(acks, wireFrame{k: "msg", typ: 2, seq: s, payload: b})
		}
		// the kernel's stream: audit records (header + body as netlink payload), the ACKs, other noise
		w.write(map[string]interface{}{"k": "reset", "trace": run})
		for _, l := range lines {
			typ, payload, ok := l.typ, "", l.ok
			if l.ok {
				payload = l.text[strings.Index(l.text, "msg=")+4:]
			} else {
				typ, payload = []int{1300, 1302, 1100}[rng.Intn(3)], "garbage without a header"
			}
			// cmd/audit only forwards types 1100..2999
			if typ < 1100 || typ > 2999 {
				ok = false
			}
			w.write(map[string]interface{}{"k": "line", "id": l.id, "ok": ok, "off": l.off, "type": typ})
			if !l.ok {
				payload += fmt.Sprintf(" vid=%d", l.id)
			}
			k.wire = append(k.wire, wireFrame{k: "msg", typ: typ, seq: 0, payload: []byte(payload)})
			if len(acks) > 0 && rng.Intn(4) == 0 {
				k.wire = append(k.wire, acks[0])
				acks = acks[1:]
			}
			if rng.Intn(10) == 0 {
				k.wire = append(k.wire, wireFrame{k: "msg", typ: []int{1000, 1305, 3, 1}[rng.Intn(4)], seq: 0, payload: []byte("x")})
			}
			if rng.Intn(15) == 0 {
				k.wire = append(k.wire, wireFrame{k: []string{"eintr", "short"}[rng.Intn(2)], payload: []byte{1, 2}})
			}
		}
		st := &pipeStream{ids: map[*auparse.AuditMessage]int{}, w: w, off: func(seq uint32) int { return int(seq - base) }}
		r, err := libaudit.NewReassembler([]int{1, 5, 5, 20}[rng.Intn(4)], 10000*time.Hour, st)
		if err != nil {
			fatal("NewReassembler: %v", err)
		}
		// Push parses internally, so messages are identified by the vid marker in RawData
		st.ids = nil
		for len(k.wire) > 0 {
			raw, err := c.Receive(false)
			if err != nil {
				continue // EINTR and truncated datagrams: cmd/audit would stop; the stream goes on here
			}
			if raw.Type < auparse.AUDIT_USER_AUTH || raw.Type > auparse.AUDIT_LAST_USER_MSG2 {
				continue
			}
			r.Push(raw.Type, raw.Data)
			stats["forwarded"]++
		}
		r.Close()
		c.Close()
		w.write(map[string]interface{}{"k": "closed"})
		stats["runs"]++
	}
	w.close()
	printJSON(map[string]interface{}{"stats": stats})
	return 0
}

func init() {
	register("pipeline-run", pipelineRunCmd)
	register("daemon-run", daemonRunCmd)
}
