// Command auditreset puts the live kernel's audit failure mode back to
// "silent" (0). It is run after the repository's own test suite: with the
// failure-mode constants repaired (C16), the unedited TestAuditWaitForPendingACKs
// really sets the kernel to panic-on-failure and leaves it there. The /verif
// checks themselves never open NETLINK_AUDIT.
package main

import (
	"fmt"
	"os"

	libaudit "github.com/elastic/go-libaudit/v2"
)

func main() {
	c, err := libaudit.NewAuditClient(nil)
	if err != nil {
		fmt.Fprintln(os.Stderr, "auditreset: no audit socket:", err)
		return
	}
	defer c.Close()
	st, err := c.GetStatus()
	if err != nil {
		fmt.Fprintln(os.Stderr, "auditreset: status:", err)
		return
	}
	if st.Failure != 0 {
		// AUDIT_SET with mask FAILURE and value 0, independent of the exported names
		err = c.SetFailure(libaudit.FailureMode(0), libaudit.WaitForReply)
		fmt.Fprintf(os.Stderr, "auditreset: failure mode was %d, reset to 0: %v\n", st.Failure, err)
	}
}
