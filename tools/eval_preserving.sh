#!/bin/bash
# eval_preserving.sh <patch.diff> <tier> <prop>... : a change that keeps the properties; every check must exit 0.
# Applied to a scratch worktree of /repo's HEAD (VERIF_REPO); /repo and /verif/evidence are not touched.
P=$1; TIER=$2; shift 2
WT=$(mktemp -d /tmp/preswt.XXXXXX); rmdir "$WT"
OUT=$(mktemp -d /tmp/presout.XXXXXX)
git -C /repo worktree add -q --detach "$WT" HEAD || exit 2
trap 'git -C /repo worktree remove --force "$WT" 2>/dev/null; rm -rf "$WT" "$OUT"' EXIT
git -C "$WT" apply "$P" || { echo "PRES patch does not apply"; exit 2; }
bad=0
for prop in "$@"; do
  out=$(cd /verif && VERIF_REPO=$WT VERIF_OUT_DIR=$OUT ./check $prop --tier $TIER 2>&1); rc=$?
  echo "PRES $prop tier=$TIER exit=$rc :: $(echo "$out" | grep -m1 'reason:\|CHECK-BROKEN\|MODEL-DRIFT' | cut -c1-260)"
  if [ $rc -ne 0 ]; then bad=1; echo "$out" | grep -m3 'reason:' | cut -c1-400; echo "$out" | tail -3; fi
done
exit $bad
