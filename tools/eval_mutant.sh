#!/bin/bash
# eval_mutant.sh <patch.diff> <tier> <prop>... : apply to /repo, run the checks, undo.
P=$1; TIER=$2; shift 2
cd /repo && git diff --quiet || { echo "/repo not clean"; exit 2; }
git -C /repo apply "$P" || exit 2
trap 'git -C /repo checkout -- . ; rm -rf "$OUT"' EXIT
OUT=$(mktemp -d /tmp/evalout.XXXXXX)   # evidence and replays of a mutant run never land in /verif
for prop in "$@"; do
  out=$(cd /verif && VERIF_OUT_DIR=$OUT ./check $prop --tier $TIER 2>&1); rc=$?
  v=$(echo "$out" | grep -c '^VIOLATION')
  echo "EVAL $prop tier=$TIER exit=$rc violations=$v :: $(echo "$out" | grep -m1 'reason:' | cut -c1-220)"
done
