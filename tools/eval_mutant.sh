#!/bin/bash
# eval_mutant.sh <patch.diff> <tier> <prop>... : apply to a scratch worktree of /repo's HEAD, run the
# checks against it (VERIF_REPO), remove it. /repo and /verif/evidence are not touched, so it is safe
# while other checks are running against /repo.
P=$1; TIER=$2; shift 2
WT=$(mktemp -d /tmp/evalwt.XXXXXX); rmdir "$WT"
OUT=$(mktemp -d /tmp/evalout.XXXXXX)
git -C /repo worktree add -q --detach "$WT" HEAD || exit 2
trap 'git -C /repo worktree remove --force "$WT" 2>/dev/null; rm -rf "$WT" "$OUT"' EXIT
git -C "$WT" apply "$P" || exit 2
for prop in "$@"; do
  out=$(cd /verif && VERIF_REPO=$WT VERIF_OUT_DIR=$OUT ./check $prop --tier $TIER 2>&1); rc=$?
  v=$(echo "$out" | grep -c '^VIOLATION')
  echo "EVAL $prop tier=$TIER exit=$rc violations=$v :: $(echo "$out" | grep -m1 'reason:' | cut -c1-220)"
  [ $rc -ge 2 ] && echo "$out" | tail -5
done
