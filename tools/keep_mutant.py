#!/usr/bin/env python3
"""keep_mutant.py <src dir> <seeded id> <demo run regex> <pkg dir> <caught_by csv> <missed_by csv> [note]
Copies a confirmed seeded change into /verif/seeded/<id>/ and records what was run."""
import json, os, shutil, sys
src, sid, run, pkg, caught, missed = sys.argv[1:7]
note = sys.argv[7] if len(sys.argv) > 7 else ""
dst = os.path.join("/verif/seeded", sid)
os.makedirs(dst, exist_ok=True)
for f in os.listdir(src):
    if f in ("patch.diff",) or f.startswith("demo"):
        p = os.path.join(src, f)
        if os.path.isdir(p):
            shutil.copytree(p, os.path.join(dst, f), dirs_exist_ok=True)
        else:
            shutil.copy(p, dst)
m = json.load(open(os.path.join(src, "meta.json")))
meta = {
    "id": sid,
    "property": m.get("property"),
    "summary": m.get("summary"),
    "needs": m.get("needs"),
    "files": m.get("files"),
    "source": "independent sub-agent given only the property text and a scratch worktree",
    "confirmed": {
        "how": "tools/confirm_mutant.sh in a scratch worktree of /repo HEAD: go build ./... (with and without -tags verif), full suite with the change, demo with and without the change",
        "demo_run": "copy the demo file into %s of the repository and run: go test -vet=off -count=1 -run '%s' ." % (pkg, run),
        "builds": True, "suite_passes_with_change": True, "demo_fails_with_change": True, "demo_passes_without_change": True,
    },
    "checks_run": "tools/eval_mutant.sh <patch> quick <property> (patch applied to a scratch worktree of /repo HEAD, checks run against it through VERIF_REPO)",
    "caught_by": [c for c in caught.split(",") if c],
    "missed_by": [c for c in missed.split(",") if c],
    "note": note,
}
json.dump(meta, open(os.path.join(dst, "meta.json"), "w"), indent=1)
print("kept", dst)
