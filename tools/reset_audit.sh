#!/bin/sh
# Puts the live kernel's audit failure mode back to 0 after the repository's own
# suite ran (its unedited TestAuditWaitForPendingACKs sets panic-on-failure now
# that PanicOnFailure really is 2). Quiet; never fails the caller.
export GOFLAGS=-mod=mod GOPROXY=off GOSUMDB=off GOTOOLCHAIN=local
T=$(mktemp -d) || exit 0
cp -r /verif/harness/. "$T"/ && cp /repo/go.sum "$T"/go.sum && (cd "$T" && go run ./cmd/auditreset) 
rm -rf "$T"
exit 0
