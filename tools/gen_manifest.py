#!/usr/bin/env python3
"""Writes /verif/MANIFEST.json from the table below (kept valid at all times)."""
import json
import os

V = os.path.dirname(os.path.dirname(os.path.abspath(__file__)))

RS_NOTE = ("Trusted: TLC, the Go harness that logs call records (it only records arguments, callbacks and return values), "
           "and SeqWindowLemma (offset order = roll-over aware order for M=2^32, W=2^24-1). Model constants are small (M=16, W=3, "
           "<=6 operations, <=4 window offsets); longer/wider histories are covered only by the seeded random traces.")

CHECKS = {
 "C01": dict(cat="model_checking", ref="7 C01", tech="TLA+ model || property monitor checked exhaustively by TLC; every TLC behaviour replayed through the real Reassembler; TLC trace validation of random real histories",
             text="TLC exhaustively checks the sequential Reassembler model against the C01 monitor (exactly-once, single-sequence, push-order, never-split) for all histories up to the bound, every such history is replayed through the real code and must equal the model's prediction or is judged by the monitor on the real trace, and seeded random real histories (duplicates, late arrivals, roll-over, EOE for absent events, nil and raw pushes) are judged by TLC with the same monitor.",
             note=RS_NOTE),
 "C02": dict(cat="model_checking", ref="7 C02", tech="TLA+ model || monitor (TLC), replay of all bounded behaviours, TLC trace validation",
             text="Same runs as C01 judged by the C02 monitor: every delivery must be the lowest undelivered sequence (equivalent to ascending order with the late-arrival exception); the model carries the code's comparator and TLC checks sortedness and comparator = offset order on windows straddling the modulus.",
             note=RS_NOTE),
 "C03": dict(cat="model_checking", ref="7 C03", tech="TLA+ model || monitor (TLC), replay of all bounded behaviours, TLC trace validation",
             text="Per call, the counts given to EventsLost must sum to the sequence numbers skipped by the in-order events that call delivered; late/duplicate events add nothing; every count positive. Checked exhaustively on the model (with the legacy arithmetic as a seeded-bug configuration that TLC must reject), on every replayed behaviour with bases that put sequence 0 and the roll-over inside the window, and on random real histories.",
             note=RS_NOTE),
 "C10": dict(cat="model_checking", ref="7 C10", tech="TLA+ model || monitor (TLC), replay of all bounded behaviours, TLC trace validation",
             text="The monitor reconstructs the buffered set from pushes and callbacks, and requires after each PushMessage at most maxInFlight buffered events and an incomplete head, and for every delivery outside Close a cause (complete, overflow, or a timeout that can have elapsed). Exhaustive on the model for maxInFlight 0..3, all behaviours replayed, random real histories with an effectively infinite timeout so causes are decided exactly.",
             note=RS_NOTE),
 "C19": dict(cat="model_checking", ref="7 C19", tech="timed TLA+ model (Tick action) || monitor with interval logic (TLC); timed replay with real sleeps; TLC trace validation",
             text="The model has a clock; TLC checks that nothing stale survives a call, nothing is flushed early, Close flushes all and later Maintain/Close fail. Every behaviour containing a tick is replayed with real sleeps (tick = 10 ms, timeout = (T+1/2) ticks) and judged on the real [t0,t1] intervals: an event that must be expired may not remain the head after a call, and one that cannot be expired may not be evicted for time. Random histories use negative, zero and millisecond timeouts with real sleeps.",
             note=RS_NOTE + " Timing is judged with microsecond intervals around each call; cases a stall makes undecidable are not judged."),
 "C11": dict(cat="model_checking", ref="7 C11", tech="TLA+ model of the Reassembler's atomic steps, all interleavings by TLC; every schedule replayed on the real code under a controlled scheduler with -race; free-running -race stress judged by the same TLA+ monitor",
             text="TLC enumerates every interleaving (at the grain of Put / CleanUp / closed-flag load / CAS / Clear, with optional re-entrant callbacks and callback-level scheduling points) of all programs of 1-2 operations for 2 goroutines and 1 operation for 3, and checks the C11 monitor; each schedule is then forced on the real Reassembler through the verif yield points under the race detector and its observation must equal the model's or is judged by the monitor; free-running rounds with concurrent closers, maintainers and re-entrant callbacks are judged on order-insensitive clauses with happens-before stamps.",
             note="Trusted: TLC, the controlled scheduler (gates at the three verifYield points and in the harness's own Stream), Go's race detector. The model assumes the mutex-protected sections are atomic; schedules inside those sections are not enumerated. Programs are short (<=2 operations per goroutine)."),
 "C08": dict(cat="model_checking", ref="7 C08", tech="TLA+ model of the client and a scripted kernel checked by TLC against a monitor written from the statement; all bounded behaviours replayed through the real AuditClient over a simulated Netlink; TLC trace validation of random scripts",
             text="TLC checks the AuditClient model (getReply with its 10-attempt loop, sequence-0 skipping, foreign-sequence rejection, ACK type and errno decoding, rule listing) against the C08 monitor for every pair/triple of operations over a script alphabet with every errno class, unsolicited events, EINTR runs up to 9, and adversarial ACKs (foreign sequence, wrong type, short, receive error, truncated datagram). Each behaviour is replayed through the real client with a simulated kernel behind the exported Netlink field (one shared receive buffer) and must equal the prediction or is judged on the real record; random scripts add random payloads, all setters, 0-9 transient failures and noise at every gap.",
             note="Trusted: TLC, the simulated kernel and the harness's error classification (errors.Is / text containment / 'rule exists'). Verdicts are judged only on an in-step socket with no NoWait ACK outstanding; the real kernel is never contacted. MC depth: 2 operations with dump, 3-4 without."),
 "C16": dict(cat="model_checking", ref="7 C16", tech="UAPI layout written in TLA+ (AuditWire), TLC judges every request the simulated kernel saw and every decoded status; exhaustive enumeration of setters x boundary values x modes and buffer lengths 0..80",
             text="Every record of every replayed and random script is judged (no inheritance): a setter must send exactly one AUDIT_SET with REQUEST|ACK and a 44-byte audit_status whose words are all zero except mask = the UAPI bit and the value at the UAPI offset; GetStatus must send an empty AUDIT_GET and return exactly the words the kernel's reply covers (zero beyond). Exported constants are logged by name and compared with the UAPI numbers in AuditWire.tla; FromWireFormat is run on every length 0..80 with zero/0xFF/random contents into a pre-filled struct from a slice with a sentinel in its spare capacity.",
             note="Trusted: AuditWire.tla's transcription of include/uapi/linux/audit.h and netlink.h, TLC, the harness's serialisation of the returned struct by field name. Little-endian host assumed (x86-64/arm64)."),
 "C17": dict(cat="model_checking", ref="7 C17", tech="TLA+ model with pending-ACK list, closeOnce and PID-clear, TLC exhaustive to depth 6-7; all behaviours to depth 4-5 replayed on the real client; random NoWait/Wait/Close histories incl. concurrent Close judged by TLC",
             text="The monitor keeps the scripted frames of every unconsumed NoWait request: WaitForPendingACKs must consume exactly the frames up to each ACK in order, stop at and return the first kernel error, and consume nothing already consumed; Close must call Netlink.Close exactly once over the client's life, preceded by exactly one AUDIT_SET{mask=PID,pid=0} iff SetPID was used, and later (or concurrent) Close calls must send and close nothing; slices returned by GetRules must read the same after later traffic through the shared buffer.",
             note="Trusted: TLC, the simulated kernel's frame accounting (pops/left), the generator's guarantee that NoWait scripts put noise only before the ACK. Concurrent Close is run as real goroutines (2-4 callers), not enumerated."),
 "C18": dict(cat="model_checking", ref="7 C18", tech="TLA+ framing oracle (AuditWire!Frame) and Netlink model (atomic counter, N senders) checked by TLC; TLC trace validation of a real NetlinkClient against the kernel's verbatim echo on NETLINK_ROUTE, a user-space NETLINK_USERSOCK sender (unicast and multicast), the audit parser on all lengths; concurrent Send under -race",
             text="TLC proves on the model that N senders sharing the atomic counter get distinct, increasing, contiguous numbers (and rejects the load/store variant). On the real code TLC compares, for ~1000 (type, flags, pid, payload length 0..8970) requests, the kernel's echo of what was on the wire with Frame(type, flags, returned seq, port, payload); checks 8x25 concurrent sends per round for distinct numbers and intact frames; requires an error and no parser call for every datagram of length 1..64 from a non-kernel sender, unicast and multicast; and checks the parser on every length 0..64.",
             note="Trusted: the kernel's netlink_ack echo semantics, /proc/net/netlink for the port id, TLC, the race detector. No schedule control over Send (one atomic instruction). If netlink sockets cannot be opened the socket sub-checks are skipped and recorded in the evidence."),
 "C06": dict(cat="exploration", ref="7 C06", tech="struct audit_rule_data written as a TLA+ definition (AuditRule!Encode over UAPI.tla); TLC enumerates the case analysis (RuleCases.tla) and judges the bytes the real Build produced for every instantiated case and random rule",
             text="For every (field x operator x value class x admissible list) combination, every list x action x syscall-set shape x key count, all 25 inter-field comparisons in both orders, all 16 permission subsets x path/dir watches, 0..65 fields and boundary syscall numbers - all enumerated by TLC - plus thousands of seeded random multi-filter rules, the harness renders auditctl text, runs flags.Parse and rule.Build, and TLC checks bytes = Encode(abstract rule) byte for byte (header words, mask, field/value/operator arrays, string buffer, padding), with every code taken from UAPI.tla rather than the library's tables.",
             note="Exploration, not proof: the case analysis is complete but values are sampled. Trusted: UAPI.tla's transcription of the kernel headers and x86 syscall numbers, the harness's rendering of abstract rules as text, little-endian amd64 host. Rules Build rejects are not judged."),
 "C07": dict(cat="exploration", ref="7 C07", tech="TLC-enumerated cases and random rules taken through Build -> ToCommandLine -> flags.Parse -> Build -> ToCommandLine on the real code; TLC judges each step and byte/text equality (RuleMonitor!JudgeRound); the first encoding is pinned to the abstract rule by C06's Encode",
             text="Every accepted rule of C06's domain that stays inside C07's quantifier (no whitespace/quote/backslash in values, path= a non-directory and dir= a directory created by the harness, amd64, resolveIds=false) is decoded to text, re-parsed, re-built and decoded again; TLC requires every step to succeed, the re-encoded bytes to equal the original bytes and the second text to equal the first. Generators emphasise != on arch, uid/gid >= 2^31 and unset, numeric syscalls without names, multi-key rules, every filetype, msgtype above 65535, watch-shaped syscall rules and arch filters that are not first.",
             note="Exploration with a complete case analysis and sampled values. Meaning preservation rests on C06 (bytes = Encode(asked rule)) plus byte identity here. Trusted: as C06."),
 "C13": dict(cat="exploration", ref="7 C13", tech="TLC enumerates every header word x boundary value and every flag order; the real decoder runs in a child process with an address-space limit; TLC judges totality, allocation bound and AuditRule!StructurallyValid on every successful decode",
             text="Each of the 260 header words of five valid base rules is replaced by each of 11 boundary values (14 300 decodes), plus truncations, wrap-around string lengths and random buffers; Build gets syscall numbers across and beyond the mask (incl. 2048..2079, 2^31, 2^32, 20-digit), 0..1000 filters and junk strings; flags.Parse gets hostile and random lines. A panic, a hang (20 s), a child killed by the memory limit, or allocation beyond 1 MiB + 64 x input is flagged, and whenever ToCommandLine succeeds the bytes must satisfy StructurallyValid (count <= 64, buflen inside the slice, string ends inside the buffer without wrap).",
             note="A panic is observed, not proved absent. Typed-nil Rule pointers are outside the quantifier ('all Rule structs'). Trusted: the child-process crash attribution, runtime.MemStats."),
 "C14": dict(cat="exploration", ref="7 C14", tech="token accounting written in TLA+ (RuleFlags.tla); TLC enumerates every order of up to 4 flags (incl. stray positional words) and judges the rule the real flags.Parse returned against the argument list",
             text="For all 8 411 flag orders the harness fills in sampled values (with spaces, operator characters, '=' signs, leading and trailing junk), shell-quotes the arguments itself, and logs arguments and result; TLC requires of every accepted line that no positional word or dangling flag exists, that delete/watch/syscall flags are not mixed and -a/-A is given exactly once for syscall rules, and that every -F/-C argument equals field+operator+value of its filter with the longest operator at the first operator position, and -S/-k/-p/-w/-a/-A are reflected in full.",
             note="Single-valued flags are never repeated (the statement does not say which occurrence wins); no whitespace is placed around operators or commas. Rejected lines are not judged."),
 "C20": dict(cat="exploration", ref="7 C20", tech="complete dump of every table entry judged by TLC with relational invariants written in TLA+ (Tables.tla); exhaustive over the finite tables",
             text="All 65536 record type codes (name round trip, text marshalling, categorisation in three visiting orders), every errno name and number (inverse maps, alias classes), every architecture (unique names and codes, acceptance and print-back by the rule package), every per-architecture syscall entry (names unique per table), every rule field/operator/comparison through Build -> ToCommandLine, and every entry of normalizations.yaml (record types the parser knows, syscalls present in some table, one normalisation per syscall, at most one unqualified normalisation per record type, file loads) are dumped and judged; the space is finite and enumerated completely.",
             note="Exhaustive over the tables as compiled into the harness plus the YAML file on disk. Trusted: TLC, the harness's independent YAML parse, three visiting orders as the probe for call-order dependence."),
 "C04": dict(cat="exploration", ref="7 C04", tech="log-line header written as a TLA+ definition (AuditRecord!HeaderLine / RawAfterMsg); all 65536 type codes swept; TLC judges what ParseLogLine, Parse and ToMapStr returned against the parts that were written",
             text="Every type code is written by the library's name (and as UNKNOWN[n], and by its linux/audit.h name where one is transcribed), with seconds over [0, 2^34) incl. the 2^31/2^32/int64-nanosecond boundaries, all milliseconds 000-999, boundary and random uint32 sequences and hostile bodies (containing msg=, ')', ':', the well-known key names); TLC checks the assembled line equals HeaderLine(parts), both entry points agree, type/seconds/ms/sequence/RawData equal what was written, and ToMapStr reports record_type, @timestamp, sequence, raw_msg from the header. Every truncation up to ')', every separator removal and a non-digit in every numeric position must give an error and no message.",
             note="Type codes are exhaustive; seconds/sequence/bodies are sampled with boundaries. @timestamp is compared with Go's time formatting of the written instant. Numbers travel as digit strings (TLC integers are 32-bit)."),
 "C05": dict(cat="exploration", ref="7 C05", tech="TLC enumerates the parser's input grammar (ParseCases.tla: record type x field x value shape, field pairs, sockaddr family x length, SELinux parts, AVC forms, EXECVE shapes, header defects); the harness adds mutated log corpora and random bytes; TLC judges the call machine (returned, repeated calls equal)",
             text="Each case is instantiated with seeded strings and run through Parse and ParseLogLine under recover with a 20 s watchdog; for every returned message Data, Tags and ToMapStr are called repeatedly in different orders and their JSON digests must agree. Quick: ~70k inputs (12k grammar cases x2, 140 corpus lines x150 mutations, 20k random strings); thorough: millions.",
             note="Totality is observed, not proved: breadth is the generators'. The grammar is enumerated completely by TLC, strings are sampled. A hang is declared after 20 s on inputs <= 10 KiB."),
 "C12": dict(cat="exploration", ref="7 C12", tech="kernel encoding of untrusted strings, struct sockaddr and derived-field rules written in TLA+ (AuditRecord.tla); TLC checks both that the harness wrote each value the way the kernel does and that Data() returned the expected value; table sweeps are exhaustive",
             text="Random values (safe printable, hex-looking, with spaces, arbitrary bytes, quotes/equals/backslashes inside) are encoded by the harness, checked against EncodeUntrusted by TLC, placed in exe/cwd/PATH name/proctitle/USER_CMD cmd/TTY data/acct/EXECVE a0..aN records, and Data() must return the original (NUL->space for proctitle); plain tokens must be unchanged, exactly the four placeholders dropped, result/unset/errno/arch rules hold, IPv4/IPv6/unix socket addresses decode to the bytes written; every errno 1..133 and every (arch, syscall number) of the exported tables is swept.",
             note="Values respect the property's stated exclusions; values nested inside msg='...' contain no single quote when quoted. Syscall names are compared with the exported table itself (the property's 'published tables'); that the tables are functions is C20."),
 "C09": dict(cat="exploration", ref="7 C09", tech="conservation/routing, identity and file-summary predicates written in TLA+ (Coalesce.tla); TLC judges flattened real events against the Data() snapshots of their records; exhaustive st_mode sweep",
             text="Thousands of seeded groups (single records across the categorised type ranges; SYSCALL groups with any subset and order of CWD, PATH x0..3, EXECVE, SOCKADDR, PROCTITLE, AVC and other records, an AVC ahead of the SYSCALL, trailing EOE, colliding keys drawn from names real records share) are coalesced by the real code; TLC checks identity = first record, the refusals the statement names, that every key/value of every record is in a location the routing table allows or is named by a warning (only SYSCALL items may vanish), and that File mirrors a PATH record. All 65536 st_mode values are swept on a single-PATH open event: File.Mode = octal(mode & 07777) and Object.Type must agree with S_IFMT.",
             note="One known finding (mode-type-cast, known_findings.json): object type is 'file' for every non-regular mode; it is matched structurally (kind=objtype, got=file, expected!=file), any other mismatch is still a violation. Domain limits as in the evidence file's assumptions."),
 "C15": dict(cat="model_checking", ref="7 C15", tech="Isolation.tla (pool of groups and events, Coalesce/Resolve/Inspect) checked by TLC against IsolationMonitor; every operation order replayed on real message groups with digests of every message and event after every step; random pools; -race stress",
             text="TLC enumerates all operation orders up to 4 (quick) / 6 (thorough) over two groups and checks the monitor (and rejects the seeded 'Coalesce mutates its input' model); each order is replayed on real groups (golden inputs, generated groups, arbitrary text): after every operation the digest of every message's Data/Tags/ToMapStr and of every event returned so far (JSON + sorted warnings) is logged, and TLC requires that no message ever changes, no event changes except the one being resolved, and a repeated Coalesce equals the first. Concurrent coalescing/resolving of different events runs under the race detector; panics anywhere are flagged.",
             note="Digests are SHA-1 prefixes compared for equality by TLC. The model abstracts a coalesce as 'reads g, creates e'. Race freedom is observed by the Go race detector, not proved."),
}

NOT_YET = {
 "C04": "check not built yet in this round (planned: DESIGN.md section 7)",
 "C05": "check not built yet in this round (planned: DESIGN.md section 7)",
 "C06": "check not built yet in this round (planned: DESIGN.md section 7)",
 "C07": "check not built yet in this round (planned: DESIGN.md section 7)",
 "C08": "check not built yet in this round (planned: DESIGN.md section 7)",
 "C09": "check not built yet in this round (planned: DESIGN.md section 7)",
 "C11": "check not built yet in this round (planned: DESIGN.md section 7)",
 "C12": "check not built yet in this round (planned: DESIGN.md section 7)",
 "C13": "check not built yet in this round (planned: DESIGN.md section 7)",
 "C14": "check not built yet in this round (planned: DESIGN.md section 7)",
 "C15": "check not built yet in this round (planned: DESIGN.md section 7)",
 "C16": "check not built yet in this round (planned: DESIGN.md section 7)",
 "C17": "check not built yet in this round (planned: DESIGN.md section 7)",
 "C18": "check not built yet in this round (planned: DESIGN.md section 7)",
 "C20": "check not built yet in this round (planned: DESIGN.md section 7)",
}


def main():
    hooks_commits = ["a3437f0", "da708a5"]
    m = {
        "version": 1,
        "setup_cmd": "./check setup",
        "hooks": {
            "guard": "verif (Go build tag)",
            "enable": "go build -tags verif (the harness module replaces github.com/elastic/go-libaudit/v2 with /repo)",
            "baseline_off_cmd": "cd /repo && GOFLAGS=-mod=mod GOPROXY=off GOSUMDB=off GOTOOLCHAIN=local go test -json -vet=off -count=1 -timeout 25m ./...; rc=$?; /verif/tools/reset_audit.sh >/dev/null 2>&1; exit $rc",
            "source_commits": hooks_commits,
            "add_only": True,
        },
        "engines": [
            {"name": "tlc", "path": "/opt/veriftools/tla/tla2tools.jar", "serves_properties": sorted(CHECKS),
             "kind_free_text": "explicit-state model checker; checks Model || Monitor and evaluates the same TLA+ monitors over ndjson traces of the real code"},
            {"name": "apalache", "path": "/opt/veriftools/apalache", "serves_properties": ["C02", "C03", "C18"],
             "kind_free_text": "symbolic model checker: SeqWindowLemma for the real constants (C02, C03), inductive invariant of the netlink sequence counter (C18 thorough)"},
            {"name": "driver", "path": "/verif/harness/cmd/driver", "serves_properties": sorted(CHECKS),
             "kind_free_text": "Go conformance harness built with -tags verif against /repo's working tree: replays TLC behaviours, records traces"},
        ],
        "checks": [],
        "not_applicable": [{"property_id": k, "reason": v} for k, v in sorted(NOT_YET.items()) if k not in CHECKS],
        "notes": "All verdicts come from TLA+ monitors evaluated by TLC on executions of the real code (DESIGN.md section 2).",
    }
    for pid in sorted(CHECKS):
        c = CHECKS[pid]
        m["checks"].append({
            "property_id": pid,
            "quick_cmd": "./check %s --tier quick" % pid,
            "thorough_cmd": "./check %s --tier thorough" % pid,
            "evidence_file": "/verif/evidence/%s.json" % pid,
            "replay_cmd_template": "./check %s --replay {path}" % pid,
            "engine": "tlc",
            "level_claimed": {"category": c["cat"], "text": c["text"], "design_ref": "DESIGN.md section " + c["ref"]},
            "level_note": c["note"],
            "technique": c["tech"],
        })
    json.dump(m, open(os.path.join(V, "MANIFEST.json"), "w"), indent=1)
    print("MANIFEST.json: %d checks, %d not_applicable" % (len(m["checks"]), len(m["not_applicable"])))


if __name__ == "__main__":
    main()
