"""Coalescing family: C09 (conservation, identity, file summary) and C15 (repeatable,
inputs intact, events isolated) — DESIGN.md section 7."""
import glob
import json

from . import core

TRACE_CFG = "SPECIFICATION Spec\nPOSTCONDITION AllConsumed\nCHECK_DEADLOCK FALSE\n"


def run(ctx):
    prop = ctx.prop
    q = ctx.tier == "quick"
    flags, nrec, stats = [], 0, {}
    files = []
    if prop == "C09":
        tp = ctx.path("co", "events.ndjson")
        stats = ctx.driver_json(["coalesce-events", "--out", tp, "--seed", ctx.seed, "--n", 3000 if q else 300000], timeout=3000)["stats"]
        ctx.log("real code: %s" % stats)
        n = sum(1 for _ in open(tp))
        f, nrec = core.judge_traces(ctx, "coalesce", "CoalesceTrace", TRACE_CFG, tp, xss="256m", timeout=3000,
                                    parts=max(1, min(core.NCPU, n // 2000)))
        flags += f
        files.append(tp)
        nontrivial = (stats.get("kind_syscall-first", 0) + stats.get("kind_special-first", 0),
                      "SYSCALL groups with a random subset/order of CWD, PATH x n, EXECVE, SOCKADDR, PROCTITLE, AVC and other records, with colliding keys")
        extra = {"exhaustive_part": "all 65536 st_mode values on a single-PATH open event"}
    else:
        # MC: operation orders over a pool, checked against the monitor and dumped for replay
        cfg = "\n".join(["SPECIFICATION MCSpec", "CONSTANTS", " Groups = {1, 2}", " MaxOps = %d" % (4 if q else 6), ' Bug = "none"',
                         " Dump = TRUE", "INVARIANTS NoFlags DumpBehaviours", "CHECK_DEADLOCK FALSE"]) + "\n"
        res = ctx.tlc("coalesce", "MC_Isolation", cfg, workers=4, timeout=1800)
        bug = ctx.tlc("coalesce", "MC_Isolation", cfg.replace('Bug = "none"', 'Bug = "MutatesInput"'), workers=2, timeout=600, expect_violation=True)
        if not bug.violation:
            raise core.Broken("the seeded-bug Isolation model (Coalesce mutates its input) was not rejected: vacuous monitor")
        bp = ctx.path("co", "behs.ndjson")
        with open(bp, "w") as fh:
            for b in res.behaviours():
                fh.write(json.dumps(b) + "\n")
        ctx.log("MC Isolation: %d distinct states, %d operation orders dumped" % (res.distinct, res.nbeh))
        racelog = ctx.path("co", "race")
        env = {"GORACE": "log_path=%s halt_on_error=0 exitcode=0" % racelog}
        tp = ctx.path("co", "iso.ndjson")
        stats = ctx.driver_json(["coalesce-iso", "--behaviours", bp, "--out", tp, "--seed", ctx.seed, "--pools", 300 if q else 8000,
                                 "--repo", core.REPO], race=True, env=env, timeout=3000)["stats"]
        # concurrent rounds in a process of their own: on concurrent map access the Go runtime ends the
        # process ("fatal error: concurrent map ..."), which is an observation of the race, not a dead driver
        sp = ctx.run_driver(["coalesce-iso", "--only-stress", "--out", ctx.path("co", "stress.ndjson"), "--seed", ctx.seed, "--repo", core.REPO,
                             "--stress", 20 if q else 400], race=True, env=env, timeout=3000, check=False)
        runtime_race = None
        if sp.returncode != 0:
            if "fatal error: concurrent map" not in sp.stderr:
                raise core.Broken("driver coalesce-iso --only-stress failed (exit %d): %s" % (sp.returncode, sp.stderr[-3000:]))
            runtime_race = sp.stderr[sp.stderr.index("fatal error: concurrent map"):][:3000]
        else:
            stats.update({k: v for k, v in json.loads([l for l in sp.stdout.splitlines() if l.startswith("{")][-1])["stats"].items()
                          if k == "stress_rounds"})
        ctx.log("real code: %s" % stats)
        f, nrec = core.judge_traces(ctx, "coalesce", "CoalesceTrace", TRACE_CFG, tp, xss="256m", timeout=3000)
        flags += f
        files.append(tp)
        races = [x for x in glob.glob(racelog + "*") if "DATA RACE" in open(x, errors="replace").read()]
        if races or runtime_race:
            rp = ctx.path("co", "race.ndjson")
            open(rp, "w").write(json.dumps({"k": "reset", "trace": 9999999}) + "\n" + json.dumps({"k": "race", "trace": 9999999}) + "\n")
            f2, _ = core.judge_traces(ctx, "coalesce", "CoalesceTrace", TRACE_CFG, rp, parts=1)
            for x in f2:
                x["race_report"] = open(races[0], errors="replace").read()[:3000] if races else runtime_race
            flags += f2
        # C15's "never panics" clause is also judged on the C09 event generator's output
        tp2 = ctx.path("co", "events.ndjson")
        s2 = ctx.driver_json(["coalesce-events", "--out", tp2, "--seed", ctx.seed + 1000, "--n", 2000 if q else 40000, "--modes=false"], timeout=3000)["stats"]
        f3, n3 = core.judge_traces(ctx, "coalesce", "CoalesceTrace", TRACE_CFG, tp2, xss="256m", timeout=3000, parts=8)
        flags += f3
        nrec += n3
        files.append(tp2)
        stats.update({"events_" + k: v for k, v in s2.items()})
        nontrivial = (stats.get("pools", 0), "pools of message groups (golden inputs, generated groups, arbitrary text) driven through an operation sequence with at least one repeated Coalesce or a Resolve")
        extra = {"states": ctx.states, "transitions": ctx.transitions, "race_reports": len(races) + (1 if runtime_race else 0)}

    samples = []
    with open(files[0]) as fh:
        for line in fh:
            if len(samples) < 2 and '"k":"meta"' not in line and '"k":"reset"' not in line and len(line) < 8000:
                samples.append(json.loads(line))

    def replay_of(flag):
        for p in files:
            with open(p) as fh:
                for line in fh:
                    if '"trace":%d,' % flag.get("trace", -1) in line:
                        r = json.loads(line)
                        if r.get("trace") == flag.get("trace") and r.get("k") in ("event", "mode"):
                            return {"family": "coalesce", "record": r, "seed": ctx.seed, "tier": ctx.tier}
        return {"family": "coalesce", "seed": ctx.seed, "tier": ctx.tier, "trace": flag.get("trace")}

    coverage = dict({
        "evaluations": nrec, "distinct_nontrivial": nontrivial[0], "rule": nontrivial[1], "samples": samples,
        "real_code": stats, "records_judged_by_tlc": nrec,
    }, **extra)
    assumptions = [
        "groups contain exactly one SYSCALL record (or none, for the refusal clause); other records may carry any key, also argc and socket_* (collisions with the entries the coalescer makes for EXECVE and SOCKADDR records)",
        "Event.File.Device mirrors the PATH record's rdev (what the pinned golden files define as device)",
        "ResolveIDs uses fresh EntityCaches; ids other than 0/root resolve through the machine's passwd/group files, identically within a run",
    ]
    return core.verdict(ctx, "exploration" if prop == "C09" else "model_checking", coverage, flags, replay_of, assumptions)


def replay(ctx, payload):
    case = payload["case"]
    ctx.seed = case.get("seed", 1)
    ctx.tier = case.get("tier", "quick")
    return run(ctx)
