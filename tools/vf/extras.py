"""./check extras — specification coverage beyond the 20 listed properties (DESIGN.md section 10).

Each item is a TLA+ model and/or monitor bound to the real code in the same way as the listed
properties; flags are printed as EXTRA-FLAG lines.  Exit 0 = nothing flagged, 1 = something
flagged (these are not registered MANIFEST checks: they have no property id), 2 = broken."""
import json

from . import core

TRACE_CFG = "SPECIFICATION Spec\nPOSTCONDITION AllConsumed\nCHECK_DEADLOCK FALSE\n"


def pipeline(ctx, quick):
    cfg = "\n".join(["SPECIFICATION PSpec", "CONSTANTS", " M = 16", " W = 3", " Base = 14", " Width = 3", " MaxInFlight = 1",
                     " Timeout = 1000000", " Inf = 1000000", ' Arith = "serial"', " Types = {1300, 1302, 1327, 1320}",
                     " MaxLines = %d" % (3 if quick else 4), "INVARIANTS NoPipeFlags OrderMatchesBuf Sorted", "CHECK_DEADLOCK FALSE"]) + "\n"
    # Pipeline.tla extends Reassembler.tla: give TLC both families' modules
    import os, shutil
    src = os.path.join(core.SPEC, "reassembler", "Reassembler.tla")
    dst = os.path.join(core.SPEC, "pipeline", "Reassembler.tla")
    if not os.path.exists(dst) or open(src).read() != open(dst).read():
        shutil.copy(src, dst)
    res = ctx.tlc("pipeline", "Pipeline", cfg, workers=core.NCPU, timeout=3000, heap="16g")
    ctx.log("pipeline model: %d distinct states, no flag" % res.distinct)
    tp = ctx.path("pipe", "trace.ndjson")
    st = ctx.driver_json(["pipeline-run", "--out", tp, "--seed", ctx.seed, "--n", 100 if quick else 3000, "--cmd", 5 if quick else 60,
                          "--repo", core.REPO], timeout=3000)["stats"]
    flags, n = core.judge_traces(ctx, "pipeline", "PipelineTrace", TRACE_CFG, tp)
    ctx.log("pipeline real runs: %s; %d records judged; %d flags" % (st, n, len(flags)))
    return flags


def daemon(ctx, quick):
    """cmd/audit's chain: start-up requests (GetStatus, NoWait settings, SetPID), then
    Receive -> type filter 1100..2999 -> Reassembler.Push -> CoalesceMessages, with the NoWait
    ACKs, other netlink types, EINTR and truncated datagrams arriving inside the event stream."""
    tp = ctx.path("pipe", "daemon.ndjson")
    st = ctx.driver_json(["daemon-run", "--out", tp, "--seed", ctx.seed, "--n", 100 if quick else 3000], timeout=3000)["stats"]
    flags, n = core.judge_traces(ctx, "pipeline", "PipelineTrace", TRACE_CFG, tp)
    ctx.log("daemon chain: %s; %d records judged; %d flags" % (st, n, len(flags)))
    return flags


def cache(ctx, quick):
    """The id <-> name cache behind ResolveIDs as a timed machine (IdCache.tla, CacheMonitor.tla):
    model checked, then real caches with injected lookup functions (verif hook) and real sleeps."""
    cfg = "\n".join(["SPECIFICATION MCSpec", "CONSTANTS", ' Keys = {"7", "8"}', ' Values = {"alice", "bob"}', " Expiration = 1",
                     " MaxOps = %d" % (4 if quick else 6), " MaxTicks = 3", " Never = 1000000", "INVARIANT NoFlags", "CHECK_DEADLOCK FALSE"]) + "\n"
    res = ctx.tlc("cache", "MC_IdCache", cfg, workers=core.NCPU, timeout=3000, heap="16g")
    ctx.log("id cache model: %d distinct states, no flag" % res.distinct)
    # the same cache used by several goroutines at once (IdCacheConc.tla): every interleaving of the lookups' steps
    procs, calls = ('{"p1", "p2"}', 4) if quick else ('{"p1", "p2", "p3"}', 5)
    ccfg = "\n".join(["SPECIFICATION MCSpec", "CONSTANTS", " Procs = %s" % procs, ' Keys = {"7", "8"}', ' Values = {"alice"}',
                      " MaxCalls = %d" % calls, ' Bug = "none"', "INVARIANTS NoFlags TypeOK MapUnderLock CachedIsStored NoOrphanLock",
                      "PROPERTY Returns", "CHECK_DEADLOCK FALSE"]) + "\n"
    res = ctx.tlc("cache", "MC_IdCacheConc", ccfg, workers=core.NCPU, timeout=3000, heap="16g")
    ctx.log("id cache used concurrently, model: %d distinct states, no flag, every lookup returns" % res.distinct)
    tp = ctx.path("cache", "trace.ndjson")
    st = ctx.driver_json(["cache-run", "--out", tp, "--seed", ctx.seed, "--n", 200 if quick else 5000, "--len", 40 if quick else 80], timeout=3000)["stats"]
    flags, n = core.judge_traces(ctx, "cache", "CacheTrace", TRACE_CFG, tp)
    ctx.log("id cache real runs: %s; %d records judged; %d flags" % (st, n, len(flags)))
    return flags


def recordformat(ctx, quick):
    """Record-format rules of the parser beyond C12: rule keys -> Tags() (the kernel joins keys with
    0x01 and hex-encodes them), AVC result/permission list, LOGIN old/new fields."""
    tp = ctx.path("parsex", "trace.ndjson")
    st = ctx.driver_json(["parse-fields", "--extras", "--out", tp, "--seed", ctx.seed, "--n", 1000 if quick else 50000], timeout=3000)["stats"]
    parse_cfg = TRACE_CFG
    flags, n = core.judge_traces(ctx, "parse", "ParseTrace", parse_cfg, tp)
    ctx.log("record-format rules: %s; %d records judged; %d flags" % (st, n, len(flags)))
    return flags


def asyncapi(ctx, quick):
    """GetStatusAsync(requireACK) and Receive in the client model (profile ASYNC): request shape, frames
    handed out one at a time in order and unchanged; every bounded behaviour replayed on the real client."""
    from . import fam_client
    res = ctx.tlc("client", "MC_Client", fam_client.mc_cfg("ASYNC", 4 if quick else 5, True), workers=core.NCPU, timeout=3000, heap="16g")
    sp = ctx.path("async", "scripts.ndjson")
    n = 0
    with open(sp, "w") as fh:
        for hist in res.behaviours():
            n += 1
            ops = [{"name": r["name"], "mode": r["mode"], "value": r["value"], "arg": r["arg"], "plan": r["plan"]} for r in hist]
            fh.write(json.dumps({"trace": n, "ops": ops, "pred": hist}) + "\n")
    tp = ctx.path("async", "trace.ndjson")
    summ = ctx.driver_json(["client-run", "--in", sp, "--out", tp, "--all", "--par", 256], timeout=3000)
    flags, nrec = core.judge_traces(ctx, "client", "ClientTrace", TRACE_CFG, tp, xss="64m")
    ctx.log("async client API: %d model states, %d behaviours replayed (%d equal to the prediction), %d records judged, %d flags"
            % (res.distinct, n, summ["stats"].get("equal_to_prediction", 0), nrec, len(flags)))
    if summ["stats"].get("differs_from_prediction"):
        print("MODEL-DRIFT item=asyncapi %d behaviours differ from the model (first: %s)"
              % (summ["stats"]["differs_from_prediction"], summ["mismatch_traces"][:5]))
    return flags


def normalize(ctx, quick):
    """The coalescer's normalisation step as an interpreter of normalizations.yaml (Normalize.tla): entry
    selection, action, ECS categorisation and outcome, actor/object/how by first present field, source
    address, ECS user/group mappings, warnings.  The table reaches TLC through a generic YAML decoder."""
    import glob
    prefix = ctx.path("nz", "t")
    rp = ctx.path("nz", "resolve.ndjson")
    st = ctx.driver_json(["normalize-run", "--out-prefix", prefix, "--shards", 8, "--seed", ctx.seed, "--reps", 3 if quick else 80,
                          "--repo", core.REPO, "--resolve-out", rp], timeout=3000)["stats"]
    flags, n = [], 0
    # the same events resolved over an injected user/group database (Resolve.tla)
    f, k = core.judge_traces(ctx, "normalize", "ResolveTrace", TRACE_CFG, rp, parts=1, xss="64m", timeout=3000)
    flags += f
    n += k
    for tp in sorted(glob.glob(prefix + "*.ndjson")):
        f, k = core.judge_traces(ctx, "normalize", "NormalizeTrace", TRACE_CFG, tp, parts=1, xss="64m", timeout=3000)
        flags += f
        n += k
    ctx.log("normalisation: %s; %d records judged; %d flags" % (st, n, len(flags)))
    return flags


ITEMS = [("normalize", normalize), ("asyncapi", asyncapi), ("pipeline", pipeline), ("daemon", daemon), ("cache", cache), ("recordformat", recordformat)]


def run(tier, seed, only=None):
    ctx = core.Ctx("extras", tier, seed)
    bad = 0
    for name, fn in ITEMS:
        if only and only != name:
            continue
        try:
            flags = fn(ctx, tier == "quick")
        except core.Broken as e:
            print("EXTRA-BROKEN %s: %s" % (name, e))
            return 2
        for f in flags[:5]:
            print("EXTRA-FLAG item=%s %s" % (name, json.dumps(f)[:300]))
        bad += len(flags)
    print("extras: %d flags" % bad)
    return 1 if bad else 0
