"""C11: Reassembler under concurrent Push / Maintain / Close.

  MC : TLC explores every interleaving of ReassemblerConc.tla (atomic steps of
       the code) for all short programs and checks the C11 monitor.
  A  : every schedule TLC produced is replayed on the real Reassembler under a
       controlled scheduler (gates at the verifYield points, optional gates at
       every callback), built with -race.
  B  : free-running stress rounds under -race, judged on order-insensitive
       clauses with happens-before stamps.
"""
import glob
import json
import os
import random

from . import core

TRACE_CFG = "SPECIFICATION Spec\nPOSTCONDITION AllConsumed\nCHECK_DEADLOCK FALSE\n"


def mc_cfg(G=2, Max=1, Fine=False, Offs=(0, 1), Types=(1300, 1327, 1320), MaxLen=2, Nested=(), Dump=True, Symmetric=True):
    return "\n".join([
        "SPECIFICATION MCSpec", "CONSTANTS",
        " G = {%s}" % ", ".join(str(i) for i in range(1, G + 1)),
        " MaxInFlight = %d" % Max, " Fine = %s" % str(Fine).upper(), " NoOp = NoOp",
        " Offs = {%s}" % ", ".join(map(str, Offs)), " Types = {%s}" % ", ".join(map(str, Types)),
        " MaxLen = %d" % MaxLen, " NestedKinds = {%s}" % ", ".join('"%s"' % n for n in Nested),
        " Dump = %s" % str(Dump).upper(), " Symmetric = %s" % str(Symmetric).upper(),
        "INVARIANTS C11Holds AtMostOnce OrderMatchesBuf Sorted" + (" DumpSchedules" if Dump else ""),
    ]) + "\n"


def plan(tier):
    q = tier == "quick"
    cfgs = [
        # all pairs of programs of 1..2 operations, no re-entrancy, every schedule
        dict(G=2, Max=1, MaxLen=2, Nested=(), Fine=False, keep=1.0),
        # re-entrant callbacks (Maintain / Close / PushMessage from inside ReassemblyComplete)
        dict(G=2, Max=0, MaxLen=2 if not q else 1, Nested=("maintain", "close", "push"), Fine=False, Types=(1300, 1327),
             keep=0.15 if not q else 1.0),
        # every callback its own scheduling point
        dict(G=2, Max=0, MaxLen=2 if not q else 1, Nested=("maintain",), Fine=True, Types=(1300, 1327), keep=0.3 if not q else 1.0),
        # three goroutines
        dict(G=3, Max=1, MaxLen=1, Nested=(), Fine=False, Offs=(0, 1), Types=(1300, 1327, 1320), keep=1.0),
    ]
    if not q:
        cfgs += [
            dict(G=2, Max=2, MaxLen=2, Nested=(), Fine=False, keep=0.5),
            dict(G=3, Max=0, MaxLen=1, Nested=("maintain", "close"), Fine=False, Offs=(0,), Types=(1300, 1327), keep=1.0),
            dict(G=2, Max=1, MaxLen=2, Nested=(), Fine=True, Types=(1300, 1327), keep=0.3),
        ]
    return dict(cfgs=cfgs, free_rounds=400 if q else 6000, sample=40 if q else 15)


def run(ctx):
    pl = plan(ctx.tier)
    rng = random.Random(ctx.seed)
    casep = ctx.path("conc", "cases.ndjson")
    ncase, nsched = 0, 0
    samples = []
    with open(casep, "w") as fh:
        for c in pl["cfgs"]:
            keep = c.pop("keep")
            res = ctx.tlc("reassembler", "MC_Conc", mc_cfg(**c), workers=core.NCPU, timeout=3000, heap="16g")
            n = 0
            nsched += res.nbeh
            for b in res.lines("BEH", keep=(lambda i: rng.random() <= keep) if keep < 1.0 else None):
                ncase += 1
                n += 1
                case = {"trace": ncase, "max": c.get("Max", 1), "fine": c.get("Fine", False),
                        "prog": b["prog"], "re": b["re"], "sched": b["sched"], "pred": b["pred"]}
                if len(samples) < 3 and n == 1:
                    samples.append({k: case[k] for k in ("prog", "re", "sched", "fine")})
                fh.write(json.dumps(case) + "\n")
            ctx.log("MC %s: %d distinct states, %d schedules, %d kept for replay" % (c, res.distinct, res.nbeh, n))

    # ---- MC with a VIEW (thorough): larger program sets, design only (nothing to replay) ------------
    if ctx.tier == "thorough":
        for vc in (dict(G=3, MaxLen=2, Nested=(), Max=1), dict(G=2, MaxLen=3, Nested=("maintain", "close"), Max=0)):
            cfg = "\n".join([
                "SPECIFICATION VSpec", "CONSTANTS", " G = {%s}" % ", ".join(map(str, range(1, vc["G"] + 1))),
                " MaxInFlight = %d" % vc["Max"], " Fine = FALSE", " NoOp = NoOp", " Offs = {0, 1}", " Types = {1300, 1327}",
                " MaxLen = %d" % vc["MaxLen"], " NestedKinds = {%s}" % ", ".join('"%s"' % n for n in vc["Nested"]),
                "VIEW View", "INVARIANTS NeverBad EndOk OrderMatchesBuf Sorted"]) + "\n"
            res = ctx.tlc("reassembler", "MC_ConcView", cfg, workers=core.NCPU, timeout=3000, heap="24g")
            ctx.log("MC (view) %s: %d generated / %d distinct states" % (vc, res.generated, res.distinct))

    # ---- A: controlled scheduler, race build -----------------------------------------
    racelog = ctx.path("conc", "race")
    env = {"GORACE": "log_path=%s halt_on_error=0 exitcode=0" % racelog}
    flags, stats, parts = [], {}, []
    # the yield hook is process-global, so parallelism comes from several driver processes
    nproc = max(1, min(core.NCPU // 2, ncase // 2000 + 1))
    lines = open(casep).readlines()
    shards = []
    for i in range(nproc):
        sp = ctx.path("conc", "cases-%d.ndjson" % i)
        open(sp, "w").writelines(lines[i::nproc])
        shards.append((i, sp, len(lines[i::nproc])))

    def run_shard(sh):
        i, sp, n = sh
        start, out, st = 0, [], {}
        for attempt in range(6):
            tp = ctx.path("conc", "trace-%d-%d.ndjson" % (i, attempt))
            summ = ctx.driver_json(["conc-run", "--in", sp, "--out", tp, "--start", start, "--sample", pl["sample"]],
                                   race=True, env=env, timeout=3000)
            for k, v in summ["stats"].items():
                if k != "cases":
                    st[k] = st.get(k, 0) + v
            out.append(tp)
            start = summ["next"]
            if start >= n:
                break
        return out, st

    ctx.driver(True)
    from concurrent.futures import ThreadPoolExecutor
    with ThreadPoolExecutor(max_workers=nproc) as ex:
        for out, st in ex.map(run_shard, shards):
            parts += out
            for k, v in st.items():
                stats[k] = stats.get(k, 0) + v
    ctx.log("controlled scheduler (-race): %s" % stats)
    if stats.get("differs_from_prediction"):
        print("MODEL-DRIFT family=reassembler-conc %d schedules gave an observation different from the model's"
              % stats["differs_from_prediction"])

    # ---- B: free scheduler -------------------------------------------------------------
    fp = ctx.path("conc", "free.ndjson")
    fsum = ctx.driver_json(["conc-free", "--seed", ctx.seed, "--rounds", pl["free_rounds"], "--out", fp, "--first", 5000000],
                           race=True, env=env, timeout=3000)
    ctx.log("free scheduler (-race): %s" % fsum["stats"])
    parts.append(fp)

    # race detector reports become records that the monitor judges
    races = []
    for f in glob.glob(racelog + "*"):
        txt = open(f, errors="replace").read()
        if "DATA RACE" in txt:
            races.append(txt[:3000])
    nrec = 0
    for tp in parts:
        f, n = core.judge_traces(ctx, "reassembler", "ConcTrace", TRACE_CFG, tp)
        flags += f
        nrec += n
    if races:
        rp = ctx.path("conc", "race.ndjson")
        with open(rp, "w") as fh:
            fh.write(json.dumps({"k": "reset", "trace": 9999999}) + "\n")
            fh.write(json.dumps({"k": "race", "reports": len(races)}) + "\n")
        f, n = core.judge_traces(ctx, "reassembler", "ConcTrace", TRACE_CFG, rp, parts=1)
        for x in f:
            x["race_report"] = races[0]
        flags += f

    def replay_of(flag):
        want = flag.get("trace")
        if want == 9999999:
            return {"family": "reassembler-conc", "mode": "race", "seed": ctx.seed, "tier": ctx.tier}
        if want >= 5000000:
            return {"family": "reassembler-conc", "mode": "free", "seed": ctx.seed, "first": want, "rounds": 1}
        with open(casep) as fh:
            for line in fh:
                c = json.loads(line)
                if c["trace"] == want:
                    c.pop("pred", None)
                    return {"family": "reassembler-conc", "mode": "controlled", "case": c}
        return {"trace": want}

    coverage = {
        "states": ctx.states, "transitions": ctx.transitions,
        "traces_validated_against_impl": stats.get("executed", 0) + fsum["stats"].get("rounds", 0),
        "samples": samples,
        "evaluations": stats.get("executed", 0) + fsum["stats"].get("rounds", 0),
        "distinct_nontrivial": stats.get("executed", 0),
        "rule": "every executed schedule is a distinct (program set, nested operation, interleaving) triple produced by TLC with at least two goroutines",
        "schedules_from_tlc": nsched, "schedules_replayed": stats.get("executed", 0),
        "schedules_equal_to_model_prediction": stats.get("equal_to_prediction", 0),
        "free_rounds": fsum["stats"], "records_judged_by_tlc": nrec, "race_reports": len(races),
    }
    assumptions = [
        "critical sections guarded by the list mutex are atomic (the model's grain); the race detector watches for violations of that assumption on every replayed schedule",
        "the controlled scheduler serialises goroutines at the verifYield points and (Fine) at callback entry; orders it cannot produce are exercised by the free-running rounds only",
        "'returned before Close was invoked' uses the earliest Close invocation (weakest reading)",
    ]
    return core.verdict(ctx, "model_checking", coverage, flags, replay_of, assumptions)


def replay(ctx, payload):
    case = payload["case"]
    racelog = ctx.path("conc", "race")
    env = {"GORACE": "log_path=%s halt_on_error=0 exitcode=0" % racelog}
    tp = ctx.path("conc", "trace.ndjson")
    if case.get("mode") == "controlled":
        cp = ctx.path("conc", "case.ndjson")
        open(cp, "w").write(json.dumps(case["case"]) + "\n")
        ctx.driver_json(["conc-run", "--in", cp, "--out", tp, "--all"], race=True, env=env)
    elif case.get("mode") == "free":
        ctx.driver_json(["conc-free", "--seed", case["seed"], "--rounds", case.get("rounds", 1), "--first", case["first"], "--out", tp],
                        race=True, env=env)
    else:
        print("replay: a race report is reproduced by re-running the check with VERIF_SEED=%s" % case.get("seed"))
        return 2
    flags, _ = core.judge_traces(ctx, "reassembler", "ConcTrace", TRACE_CFG, tp, parts=1)
    if any("DATA RACE" in open(f, errors="replace").read() for f in glob.glob(racelog + "*")):
        flags.append({"prop": "C11", "why": "data race reported by the race detector"})
    for f in flags:
        print("  reason: %s" % json.dumps(f))
    if flags:
        print("VIOLATION property=C11 replay=%s" % payload.get("_path", "?"))
        return 1
    print("replay: no flag for C11 on the current tree")
    return 0
