"""Core of the /verif orchestrator: scratch space, harness build, TLC runner,
flag collection, known findings, evidence and verdicts.

Verdict rule (DESIGN.md section 2): a check exits 1 only for a flag that a TLA+
Monitor raised on an execution observed from the real code and that matches no
entry of known_findings.json.  Tooling failures exit 2.
"""
import atexit
import hashlib
import json
import os
import re
import shutil
import subprocess
import sys
import tempfile
import threading
import time

VERIF = os.path.dirname(os.path.dirname(os.path.dirname(os.path.abspath(__file__))))
REPO = os.environ.get("VERIF_REPO", "/repo")
SPEC = os.path.join(VERIF, "spec")
# where evidence and replays are written (redirected when the checks are pointed at a scratch tree)
OUTDIR = os.environ.get("VERIF_OUT_DIR", VERIF)
JAR = "/opt/veriftools/tla/tla2tools.jar:/opt/veriftools/tla/CommunityModules-deps.jar"
NCPU = os.cpu_count() or 4

GOENV = dict(GOFLAGS="-mod=mod", GOPROXY="off", GOSUMDB="off", GOTOOLCHAIN="local")


class Broken(Exception):
    """The machinery (not the code under test) failed: exit 2."""


class Ctx:
    def __init__(self, prop, tier, seed):
        self.prop = prop
        self.tier = tier
        self.seed = seed
        self.start = time.time()
        self.scratch = tempfile.mkdtemp(prefix="verif-%s-" % prop)
        atexit.register(shutil.rmtree, self.scratch, True)
        self.tlc_runs = 0
        self.states = 0
        self.transitions = 0
        self.notes = []
        self.binaries = {}
        self.lock = threading.Lock()

    def path(self, *a):
        p = os.path.join(self.scratch, *a)
        os.makedirs(os.path.dirname(p), exist_ok=True)
        return p

    def log(self, msg):
        print("[%s %6.1fs] %s" % (self.prop, time.time() - self.start, msg), flush=True)

    # ---- harness -----------------------------------------------------------
    def driver(self, race=False):
        key = "race" if race else "plain"
        if key in self.binaries:
            return self.binaries[key]
        hdir = self.path("harness")
        if not os.path.exists(os.path.join(hdir, "go.mod")):
            shutil.copytree(os.path.join(VERIF, "harness"), hdir, dirs_exist_ok=True)
            shutil.copy(os.path.join(REPO, "go.sum"), os.path.join(hdir, "go.sum"))
            if REPO != "/repo":
                gm = open(os.path.join(hdir, "go.mod")).read().replace("=> /repo", "=> " + REPO)
                open(os.path.join(hdir, "go.mod"), "w").write(gm)
        out = self.path("bin", "driver-" + key)
        cmd = ["go", "build", "-tags", "verif"] + (["-race"] if race else []) + ["-o", out, "./cmd/driver"]
        env = dict(os.environ, **GOENV)
        t = time.time()
        p = subprocess.run(cmd, cwd=hdir, env=env, stdout=subprocess.PIPE, stderr=subprocess.STDOUT, text=True)
        if p.returncode != 0:
            raise Broken("harness does not build against %s:\n%s" % (REPO, p.stdout[-4000:]))
        self.log("built harness (%s) in %.1fs" % (key, time.time() - t))
        self.binaries[key] = out
        return out

    def run_driver(self, args, race=False, timeout=1800, env=None, check=True, stdin=None):
        exe = self.driver(race)
        e = dict(os.environ)
        if env:
            e.update(env)
        p = subprocess.run([exe] + [str(a) for a in args], stdout=subprocess.PIPE, stderr=subprocess.PIPE,
                           text=True, timeout=timeout, env=e, input=stdin)
        if check and p.returncode != 0:
            raise Broken("driver %s failed (exit %d): %s" % (args[0], p.returncode, p.stderr[-3000:]))
        return p

    def driver_json(self, args, **kw):
        p = self.run_driver(args, **kw)
        lines = [l for l in p.stdout.splitlines() if l.startswith("{")]
        if not lines:
            raise Broken("driver %s printed no summary: %s" % (args[0], p.stdout[-2000:] + p.stderr[-2000:]))
        return json.loads(lines[-1])

    # ---- TLC ---------------------------------------------------------------
    def tlc(self, family, module, cfg, env=None, workers=1, timeout=1200, simulate=None,
            depth_first=False, extra=None, xss=None, heap=None, expect_violation=False):
        """Run TLC on spec/<family>/<module>.tla with configuration text cfg.
        Returns a TLCResult; raises Broken on tool failure."""
        with self.lock:
            self.tlc_runs += 1
            d = self.path("tlc%d" % self.tlc_runs, "x")
        d = os.path.dirname(d)
        for sub in ("common", family):
            sd = os.path.join(SPEC, sub)
            for f in os.listdir(sd):
                if f.endswith(".tla"):
                    shutil.copy(os.path.join(sd, f), d)
        open(os.path.join(d, module + ".cfg"), "w").write(cfg)
        tmp = os.path.join(d, "tmp")
        os.makedirs(tmp, exist_ok=True)
        jopts = ["-XX:+UseParallelGC", "-Djava.io.tmpdir=" + tmp]
        if xss:
            jopts.append("-Xss" + xss)
        if heap:
            jopts.append("-Xmx" + heap)
        if depth_first:
            jopts.append("-Dtlc2.tool.queue.IStateQueue=StateDeque")
        cmd = ["java"] + jopts + ["-cp", JAR, "tlc2.TLC", "-workers", str(workers),
                                  "-metadir", os.path.join(d, "meta"), "-config", module + ".cfg", "-nowarning"]
        if simulate:
            cmd += ["-simulate", simulate]
        if extra:
            cmd += extra
        cmd.append(module + ".tla")
        e = dict(os.environ)
        if env:
            e.update({k: str(v) for k, v in env.items()})
        outp = os.path.join(d, "out.txt")
        t = time.time()
        with open(outp, "w") as fh:
            try:
                p = subprocess.run(cmd, cwd=d, env=e, stdout=fh, stderr=subprocess.STDOUT, timeout=timeout)
            except subprocess.TimeoutExpired:
                raise Broken("TLC timed out after %ds on %s" % (timeout, module))
        res = TLCResult(outp, p.returncode, time.time() - t)
        shutil.rmtree(os.path.join(d, "meta"), True)
        shutil.rmtree(tmp, True)
        if res.tool_error or (res.violation and not expect_violation):
            raise Broken("TLC failed on %s (exit %d):\n%s" % (module, p.returncode, res.tail()))
        with self.lock:
            self.states += res.distinct
            self.transitions += res.generated
        return res


class TLCResult:
    def __init__(self, path, rc, wall):
        self.path = path
        self.rc = rc
        self.wall = wall
        self.generated = 0
        self.distinct = 0
        self.flags = []
        self.violation = None     # name of a violated invariant / property
        self.tool_error = False
        self.completed = False
        self.nbeh = 0
        with open(path, errors="replace") as fh:
            for line in fh:
                if line.startswith('"FLAG '):
                    self.flags.append(json.loads(unescape(line.strip())[5:]))
                elif line.startswith('"BEH '):
                    self.nbeh += 1
                elif "states generated" in line and "distinct states found" in line:
                    m = re.search(r"(\d+) states generated, (\d+) distinct states found", line)
                    if m:
                        self.generated, self.distinct = int(m.group(1)), int(m.group(2))
                elif line.startswith("Error: Invariant") or line.startswith("Error: Action property") \
                        or line.startswith("Error: Temporal properties") or "is violated" in line and line.startswith("Error:"):
                    self.violation = line.strip()
                elif line.startswith("Error: Deadlock reached"):
                    self.violation = line.strip()
                elif line.startswith("Model checking completed. No error has been found") or \
                        line.startswith("Finished in"):
                    self.completed = True
                elif line.startswith("Error:") and self.violation is None and "The behavior up to this point" not in line:
                    self.tool_error = True
        if rc != 0 and self.violation is None:
            self.tool_error = True

    def behaviours(self):
        with open(self.path, errors="replace") as fh:
            for line in fh:
                if line.startswith('"BEH '):
                    yield json.loads(unescape(line.strip())[4:])

    def lines(self, prefix, keep=None):
        """Yield the JSON values TLC printed as "<prefix> <json>"; keep(i) may drop a line before it is parsed."""
        q = '"' + prefix + " "
        i = 0
        with open(self.path, errors="replace") as fh:
            for line in fh:
                if line.startswith(q):
                    i += 1
                    if keep is not None and not keep(i):
                        continue
                    yield json.loads(unescape(line.strip())[len(prefix) + 1:])

    def tail(self, n=40):
        with open(self.path, errors="replace") as fh:
            ls = [l for l in fh if not l.startswith(("Parsing file", "Semantic processing", "Linting of", '"BEH', '"FLAG'))]
        return "".join(ls[-n:])


def unescape(s):
    """Undo TLC's printing of a string value: "..." with \\" and \\\\ escapes."""
    if s.startswith('"') and s.endswith('"'):
        try:
            return json.loads(s)       # TLC's escapes are JSON's: C speed instead of a Python loop
        except ValueError:
            pass
        s = s[1:-1]
    out = []
    i = 0
    while i < len(s):
        c = s[i]
        if c == "\\" and i + 1 < len(s):
            n = s[i + 1]
            out.append({"n": "\n", "t": "\t"}.get(n, n))
            i += 2
        else:
            out.append(c)
            i += 1
    return "".join(out)


# ---- known findings ----------------------------------------------------------

def load_known():
    p = os.path.join(VERIF, "known_findings.json")
    if not os.path.exists(p):
        return {"findings": [], "fixed": []}
    return json.load(open(p))


def matches(flag, match):
    """Structural match: every key of match must equal the flag's value; a value
    of the form {"not": x} requires inequality, {"in": [...]} membership,
    {"prefix": s} a string prefix."""
    for k, want in match.items():
        have = flag.get(k)
        if isinstance(want, dict):
            if "not" in want and have == want["not"]:
                return False
            if "in" in want and have not in want["in"]:
                return False
            if "prefix" in want and not (isinstance(have, str) and have.startswith(want["prefix"])):
                return False
        elif have != want:
            return False
    return True


def classify(prop, flags):
    """Split this property's flags into (violations, {finding id: [flags]})."""
    known = [f for f in load_known().get("findings", []) if f["property"] == prop]
    viol, found = [], {}
    for fl in flags:
        if fl.get("prop") != prop:
            continue
        for k in known:
            if matches(fl, k["match"]):
                found.setdefault(k["id"], []).append(fl)
                break
        else:
            viol.append(fl)
    return viol, found


# ---- evidence and verdict ------------------------------------------------------

def write_evidence(ctx, level, coverage, violations, assumptions):
    os.makedirs(os.path.join(OUTDIR, "evidence"), exist_ok=True)
    ev = {
        "property_id": ctx.prop,
        "tier": ctx.tier,
        "seed": ctx.seed,
        "level": level,
        "coverage": coverage,
        "assumptions": assumptions,
        "wall_s": round(time.time() - ctx.start, 2),
        "violations": violations,
    }
    p = os.path.join(OUTDIR, "evidence", ctx.prop + ".json")
    tmp = p + ".tmp"
    json.dump(ev, open(tmp, "w"), indent=1)
    os.replace(tmp, p)


def save_replay(prop, payload):
    d = os.path.join(OUTDIR, "replays", prop)
    os.makedirs(d, exist_ok=True)
    body = json.dumps(payload, sort_keys=True)
    h = hashlib.sha1(body.encode()).hexdigest()[:12]
    p = os.path.join(d, h + ".json")
    open(p, "w").write(body)
    return p


def verdict(ctx, level, coverage, flags, replay_of, assumptions):
    """flags: all flags raised on real executions (any property); replay_of(flag)
    returns a JSON payload that reproduces the flagged case."""
    viol, found = classify(ctx.prop, flags)
    known = [f for f in load_known().get("findings", []) if f["property"] == ctx.prop]
    for k in known:
        if k["id"] in found:
            print("KNOWN-FINDING: property=%s %s (%s; seen %d times in this run)"
                  % (ctx.prop, k["what"], k["id"], len(found[k["id"]])))
    coverage = dict(coverage)
    coverage.setdefault("known_findings_observed", sorted(found))
    write_evidence(ctx, level, coverage, len(viol), assumptions)
    if viol:
        seen = set()
        for fl in viol:
            key = (fl.get("why"), fl.get("kind"))
            if key in seen:
                continue
            seen.add(key)
            path = save_replay(ctx.prop, {"property": ctx.prop, "flag": fl, "case": replay_of(fl)})
            print("  reason: %s" % json.dumps(fl)[:600])
            print("VIOLATION property=%s replay=%s" % (ctx.prop, path))
            if len(seen) >= 5:
                break
        ctx.log("%d flagged records (%d distinct reasons)" % (len(viol), len(seen)))
        return 1
    ctx.log("held on everything explored")
    return 0


# ---- trace judging (binding B) ---------------------------------------------------

def split_traces(path, outdir, max_lines=4000, max_bytes=24 << 20, reset_key='"k":"reset"', splittable=True):
    """Split an ndjson trace file into chunks of bounded size, at reset records (or at any line
    when the trace has none: per-record oracles).  Returns [(path, lines)]."""
    os.makedirs(outdir, exist_ok=True)
    out = []
    head = []
    cur, cur_bytes = [], 0
    has_reset = False
    with open(path) as fh:
        first = fh.readline()
        if first and '"k":"meta"' in first[:200]:
            head = [first]
        elif first:
            cur, cur_bytes = [first], len(first)
            has_reset = reset_key in first[:200]

        def flush():
            nonlocal cur, cur_bytes
            if cur:
                p = os.path.join(outdir, "part%d.ndjson" % len(out))
                with open(p, "w") as o:
                    o.writelines(head)
                    o.writelines(cur)
                out.append((p, len(head) + len(cur)))
            cur, cur_bytes = [], 0

        for line in fh:
            is_reset = reset_key in line[:200]
            has_reset = has_reset or is_reset
            boundary = is_reset or not has_reset
            if splittable and boundary and cur and (len(cur) >= max_lines or cur_bytes >= max_bytes):
                flush()
            cur.append(line)
            cur_bytes += len(line)
        flush()
    return out


def judge_traces(ctx, family, module, cfg, trace_path, parts=None, timeout=1800, xss=None, split=True, heap="2500m"):
    """Have TLC evaluate the family's Monitor over every record of trace_path.  The trace is cut
    into bounded chunks (at reset records) that a pool of TLC processes works through.
    Returns (flags, records_judged).  parts is accepted for compatibility (1 = do not split)."""
    from concurrent.futures import ThreadPoolExecutor
    if not os.path.exists(trace_path) or os.path.getsize(trace_path) == 0:
        return [], 0
    chunks = split_traces(trace_path, ctx.path("split%d" % (ctx.tlc_runs + 1), "x")[:-2], splittable=split and parts != 1)
    n = sum(c[1] for c in chunks)
    if n <= 1:
        return [], 0

    def one(ch):
        return ctx.tlc(family, module, cfg, env={"TRACE_FILE": ch[0]}, workers=1, timeout=timeout, xss=xss, heap=heap if split else "8g")

    flags = []
    with ThreadPoolExecutor(max_workers=max(1, min(NCPU - 2, 12, len(chunks)))) as ex:
        for res, ch in zip(ex.map(one, chunks), chunks):
            if res.distinct < ch[1]:
                raise Broken("trace monitor consumed %d of %d records of %s" % (res.distinct, ch[1], ch[0]))
            flags.extend(res.flags)
            try:
                os.remove(ch[0])
            except OSError:
                pass
    return flags, n


def apalache_lemma(ctx, module="SeqWindowLemma", inv="Lemma", timeout=600):
    """Discharge a constant-level lemma with Apalache (symbolic, length 0)."""
    d = ctx.path("apalache", "x")[:-2]
    shutil.copy(os.path.join(SPEC, "common", module + ".tla"), d)
    cmd = ["apalache-mc", "check", "--length=0", "--init=Init", "--next=Next", "--inv=" + inv,
           "--out-dir=" + os.path.join(d, "out"), module + ".tla"]
    try:
        p = subprocess.run(cmd, cwd=d, stdout=subprocess.PIPE, stderr=subprocess.STDOUT, text=True, timeout=timeout,
                           env=dict(os.environ, JAVA_TOOL_OPTIONS="-Djava.io.tmpdir=" + d))
    except subprocess.TimeoutExpired:
        raise Broken("Apalache timed out on " + module)
    if "EXITCODE: OK" not in p.stdout or "NoError" not in p.stdout:
        raise Broken("Apalache did not prove %s!%s:\n%s" % (module, inv, p.stdout[-2000:]))
    return True


def apalache_check(ctx, family, module, args, timeout=900, expect_error=False):
    """Run one apalache-mc check obligation on spec/<family>/<module>.tla; Broken unless it reports NoError
    (with expect_error: returns True when Apalache found a counterexample, False when it did not)."""
    d = ctx.path("apalache-%s" % module, "x")[:-2]
    shutil.copy(os.path.join(SPEC, family, module + ".tla"), d)
    cmd = ["apalache-mc", "check"] + list(args) + ["--out-dir=" + os.path.join(d, "out"), module + ".tla"]
    try:
        p = subprocess.run(cmd, cwd=d, stdout=subprocess.PIPE, stderr=subprocess.STDOUT, text=True, timeout=timeout,
                           env=dict(os.environ, JAVA_TOOL_OPTIONS="-Djava.io.tmpdir=" + d))
    except subprocess.TimeoutExpired:
        raise Broken("Apalache timed out on %s %s" % (module, args))
    if expect_error:
        shutil.rmtree(os.path.join(d, "out"), True)
        if "The outcome is: Error" in p.stdout and "invariant" in p.stdout:
            return True
        if "NoError" in p.stdout:
            return False
        raise Broken("Apalache neither discharged nor refuted %s %s:\n%s" % (module, args, p.stdout[-1500:]))
    if "EXITCODE: OK" not in p.stdout or "NoError" not in p.stdout:
        raise Broken("Apalache did not discharge %s %s:\n%s" % (module, args, p.stdout[-1500:]))
    shutil.rmtree(os.path.join(d, "out"), True)
    return True
