"""C18: netlink transport framing and sender trust.

  MC : TLC checks the Netlink model (N concurrent senders on one atomic counter;
       the load/store variant is the seeded-bug configuration that must fail).
  B  : a real NetlinkClient on NETLINK_ROUTE (the kernel echoes rejected requests
       verbatim), a second user-space NETLINK_USERSOCK socket as the non-kernel
       sender (unicast and multicast), the audit parser on buffers of every length;
       all records judged by TLC with NetlinkMonitor.  Concurrent Send under -race.
  Replay of model schedules is not possible: Send's only shared step is one atomic
  instruction, there is nothing to gate (stated in DESIGN.md).
"""
import glob
import json

from . import core

TRACE_CFG = "SPECIFICATION Spec\nPOSTCONDITION AllConsumed\nCHECK_DEADLOCK FALSE\n"


def mc_cfg(n, per, bug="none"):
    return "\n".join(["SPECIFICATION Spec", "CONSTANTS", " Senders = {%s}" % ", ".join(map(str, range(1, n + 1))),
                      " PerSender = %d" % per, ' Bug = "%s"' % bug,
                      "INVARIANTS Distinct Increasing Contiguous WireMatches", "CHECK_DEADLOCK FALSE"]) + "\n"


def run(ctx):
    q = ctx.tier == "quick"
    res = ctx.tlc("client", "Netlink", mc_cfg(3, 3 if q else 4), workers=core.NCPU, timeout=1800)
    ctx.log("MC Netlink (3 senders): %d distinct states" % res.distinct)
    bug = ctx.tlc("client", "Netlink", mc_cfg(2, 2, "LoadStore"), workers=2, timeout=600, expect_violation=True)
    if not bug.violation:
        raise core.Broken("the seeded-bug Netlink model (load/store counter) was not rejected by TLC: vacuous invariants")

    proved = 0
    if not q:
        # unbounded number of Sends: inductive invariant discharged by Apalache (3 obligations)
        for args in (["--cinit=CInit", "--init=Init", "--inv=IndInv", "--length=0"],
                     ["--cinit=CInit", "--init=IndInit", "--inv=IndInv", "--length=1"],
                     ["--cinit=CInit", "--init=IndInit", "--inv=Safety", "--length=0"]):
            core.apalache_check(ctx, "client", "NetlinkInd", args)
            proved += 1
        ctx.log("Apalache discharged the inductive invariant of the sequence counter (Init => IndInv, IndInv /\\ Next => IndInv', IndInv => Safety)")

    racelog = ctx.path("nl", "race")
    env = {"GORACE": "log_path=%s halt_on_error=0 exitcode=0" % racelog}
    tp = ctx.path("nl", "trace.ndjson")
    summ = ctx.driver_json(["netlink-cases", "--seed", ctx.seed, "--out", tp, "--reps", 1 if q else 12,
                            "--rounds", 20 if q else 1000, "--senders", 8, "--per-sender", 25], race=True, env=env, timeout=3000)
    st = summ["stats"]
    ctx.log("real transport: %s; skipped: %s" % (st, summ["skipped"][:3]))
    if summ["skipped"]:
        ctx.notes.append("sub-checks skipped: %s" % summ["skipped"][:5])
    flags, nrec = core.judge_traces(ctx, "client", "NetlinkTrace", TRACE_CFG, tp, xss="256m",
                                    parts=max(1, min(core.NCPU, nrec_hint(tp) // 600)))
    races = [f for f in glob.glob(racelog + "*") if "DATA RACE" in open(f, errors="replace").read()]
    if races:
        rp = ctx.path("nl", "race.ndjson")
        open(rp, "w").write(json.dumps({"k": "reset", "trace": 8999999}) + "\n" + json.dumps({"k": "race", "trace": 8999999}) + "\n")
        f, _ = core.judge_traces(ctx, "client", "NetlinkTrace", TRACE_CFG, rp, parts=1)
        for x in f:
            x["race_report"] = open(races[0], errors="replace").read()[:3000]
        flags += f

    samples = []
    with open(tp) as fh:
        for line in fh:
            r = json.loads(line)
            if r.get("k") in ("send", "recv", "parse") and len(samples) < 3 and len(line) < 900:
                samples.append(r)
    total = st.get("send_cases", 0) + st.get("concurrent_sends", 0) + st.get("user_datagrams", 0) + st.get("parse_cases", 0)
    coverage = {
        "states": ctx.states, "transitions": ctx.transitions,
        "traces_validated_against_impl": 1 + (20 if q else 300),
        "samples": samples,
        "evaluations": total,
        "distinct_nontrivial": st.get("send_cases", 0) + st.get("user_datagrams", 0),
        "rule": "distinct (type, flags, pid, payload) requests echoed by the kernel plus distinct datagrams delivered from a non-kernel sender",
        "real_transport": st, "skipped": summ["skipped"][:10], "records_judged_by_tlc": nrec, "race_reports": len(races),
        "apalache_obligations_discharged": proved,
    }
    assumptions = [
        "rtnetlink answers a request whose type is above RTM_MAX with NLMSG_ERROR(EOPNOTSUPP) that echoes the request verbatim, and only acknowledges control types; no valid rtnetlink command is ever sent",
        "the client's port id is read from /proc/net/netlink",
        "kernel datagrams shorter than a header cannot be produced; the short-datagram clause is exercised with user-space senders and on the parser",
        "concurrent Send has a single atomic step, so schedules are not enumerated on the real code; the model covers them and -race stress samples them",
    ]
    return core.verdict(ctx, "model_checking", coverage, flags,
                        lambda fl: {"family": "netlink", "seed": ctx.seed, "tier": ctx.tier, "trace": fl.get("trace")}, assumptions)


def nrec_hint(p):
    return sum(1 for _ in open(p))


def replay(ctx, payload):
    case = payload["case"]
    import os
    os.environ["VERIF_SEED"] = str(case.get("seed", 1))
    ctx.seed = case.get("seed", 1)
    ctx.tier = case.get("tier", "quick")
    return run(ctx)
