"""./check selftest — demonstrates that the specifications are bound to the code and that the
monitors are not vacuous:

  * one recorded field of a real trace is corrupted (or one record removed) per family and TLC
    must flag exactly that property at that place;
  * every family's seeded-bug Model configuration must be rejected by TLC.

A family whose self-test does not fail as expected makes this command exit 2."""
import copy
import json
import os
import sys

from . import core
from . import fam_rs, fam_rsconc, fam_client, fam_netlink, fam_rule, fam_parse, fam_coalesce, fam_tables

CFG = "SPECIFICATION Spec\nPOSTCONDITION AllConsumed\nCHECK_DEADLOCK FALSE\n"


def load(path):
    return [json.loads(l) for l in open(path)]


def save(path, recs):
    with open(path, "w") as fh:
        for r in recs:
            fh.write(json.dumps(r) + "\n")


class Fail(Exception):
    pass


def expect_flag(ctx, family, module, recs, prop, what, xss=None):
    """Judge recs; require at least one flag of prop. Returns the flags."""
    p = ctx.path("selftest", "t%d.ndjson" % (ctx.tlc_runs + 1))
    save(p, recs)
    flags, _ = core.judge_traces(ctx, family, module, CFG, p, parts=1, xss=xss, split=False)
    mine = [f for f in flags if f.get("prop") == prop]
    if not mine:
        raise Fail("%s: corrupting %s did not raise a %s flag (flags: %s)" % (family, what, prop, flags[:3]))
    print("  ok  %-12s %-60s -> %s: %s" % (family, what, prop, mine[0]["why"][:70]))
    return flags


def expect_clean(ctx, family, module, recs, props, xss=None):
    p = ctx.path("selftest", "t%d.ndjson" % (ctx.tlc_runs + 1))
    save(p, recs)
    flags, _ = core.judge_traces(ctx, family, module, CFG, p, parts=1, xss=xss, split=False)
    bad = [f for f in flags if f.get("prop") in props and not core.classify(f["prop"], [f])[1]]
    if bad:
        raise Fail("%s: the uncorrupted trace is flagged: %s" % (family, bad[:2]))


def expect_model_rejected(ctx, family, module, cfg, what):
    res = ctx.tlc(family, module, cfg, workers=4, timeout=900, expect_violation=True)
    if not res.violation:
        raise Fail("%s: TLC accepted the seeded-bug model (%s)" % (family, what))
    print("  ok  %-12s seeded-bug model %-43s -> rejected: %s" % (family, what, res.violation[:60]))


# ---- families ------------------------------------------------------------------------------------

def st_reassembler(ctx):
    bp, tp = ctx.path("st", "rs-beh.ndjson"), ctx.path("st", "rs-trace.ndjson")
    ctx.run_driver(["rs-gen", "--seed", 7, "--n", 6, "--len", 40, "--mode", "inf", "--out", bp])
    ctx.driver_json(["rs-run", "--in", bp, "--out", tp, "--all"])
    recs = load(tp)
    expect_clean(ctx, "reassembler", "ReassemblerTrace", recs, {"C01", "C02", "C03", "C10", "C19"})
    # a delivered id changed
    r1 = copy.deepcopy(recs)
    i = next(i for i, r in enumerate(r1) if r.get("k") == "call" and any(c["k"] == "ev" for c in r["cbs"]))
    cb = next(c for c in r1[i]["cbs"] if c["k"] == "ev")
    cb["ids"][0] += 100000
    expect_flag(ctx, "reassembler", "ReassemblerTrace", r1, "C01", "a delivered message id")
    # a callback removed
    r2 = copy.deepcopy(recs)
    r2[i]["cbs"] = [c for c in r2[i]["cbs"] if c is not next(c for c in r2[i]["cbs"] if c["k"] == "ev")]
    expect_flag(ctx, "reassembler", "ReassemblerTrace", r2, "C01", "removal of one ReassemblyComplete callback")
    # a loss count changed / invented
    r3 = copy.deepcopy(recs)
    j = next((j for j, r in enumerate(r3) if r.get("k") == "call" and any(c["k"] == "lost" for c in r["cbs"])), None)
    if j is None:
        j = i
        r3[j]["cbs"].append({"k": "lost", "ids": [], "n": [3]})
    else:
        next(c for c in r3[j]["cbs"] if c["k"] == "lost")["n"].append(7)
    expect_flag(ctx, "reassembler", "ReassemblerTrace", r3, "C03", "an EventsLost count")
    # two deliveries swapped in one call
    r4 = copy.deepcopy(recs)
    k = next((k for k, r in enumerate(r4) if r.get("k") == "call" and sum(1 for c in r["cbs"] if c["k"] == "ev") >= 2), None)
    if k is not None:
        evs = [n for n, c in enumerate(r4[k]["cbs"]) if c["k"] == "ev"]
        r4[k]["cbs"][evs[0]], r4[k]["cbs"][evs[1]] = r4[k]["cbs"][evs[1]], r4[k]["cbs"][evs[0]]
        expect_flag(ctx, "reassembler", "ReassemblerTrace", r4, "C02", "the order of two deliveries")
    expect_model_rejected(ctx, "reassembler", "MC_Reassembler", fam_rs.mc_cfg(Arith="legacy", MaxOps=4), "legacy loss arithmetic")
    for cinit, what in (("CInitSweep", "expired events swept from behind the head"), ("CInitNoAdv", "timed-out events delivered without advance()")):
        if not core.apalache_check(ctx, "reassembler", "ReassemblerInd", ["--cinit=" + cinit, "--init=IndInit", "--inv=IndInv", "--length=1"], expect_error=True):
            raise Fail("reassembler: Apalache found the inductive step preserved by the seeded variant (%s)" % what)
        print("  ok  %-12s seeded-bug model %-43s -> inductive step refuted by Apalache" % ("reassembler", what))


def st_conc(ctx):
    cfg = fam_rsconc.mc_cfg(G=2, Max=1, MaxLen=1, Nested=(), Types=(1300, 1327))
    res = ctx.tlc("reassembler", "MC_Conc", cfg, workers=4, timeout=900)
    cp, tp = ctx.path("st", "conc-cases.ndjson"), ctx.path("st", "conc-trace.ndjson")
    with open(cp, "w") as fh:
        for n, b in enumerate(res.lines("BEH")):
            if n >= 40:
                break
            fh.write(json.dumps({"trace": n + 1, "max": 1, "fine": False, "prog": b["prog"], "re": b["re"], "sched": b["sched"]}) + "\n")
    ctx.driver_json(["conc-run", "--in", cp, "--out", tp, "--all"], race=True)
    recs = load(tp)
    expect_clean(ctx, "reassembler", "ConcTrace", recs, {"C11"})
    r1 = copy.deepcopy(recs)
    i = next(i for i, r in enumerate(r1) if r.get("e") == "cb")
    r1.insert(i + 1, copy.deepcopy(r1[i]))
    expect_flag(ctx, "reassembler", "ConcTrace", r1, "C11", "a duplicated delivery")


def st_client(ctx):
    sp, tp = ctx.path("st", "cl-scripts.ndjson"), ctx.path("st", "cl-trace.ndjson")
    ctx.run_driver(["client-gen", "--seed", 3, "--n", 10, "--len", 10, "--profile", "C08", "--out", sp])
    ctx.driver_json(["client-run", "--in", sp, "--out", tp, "--all"])
    recs = load(tp)
    expect_clean(ctx, "client", "ClientTrace", recs, {"C08", "C16", "C17"}, xss="64m")
    r1 = copy.deepcopy(recs)
    # the first operation of a trace (socket certainly in step) that succeeded
    i = next(i for i, r in enumerate(r1) if r.get("k") == "op" and r["ret"] == "nil" and r1[i - 1].get("k") == "reset"
             and r["name"] in ("AddRule", "DeleteRule", "SetRateLimit", "SetBacklogLimit", "SetEnabled", "SetPID", "SetFailure", "SetImmutable", "SetBacklogWaitTime"))
    r1[i]["ret"] = "err"
    expect_flag(ctx, "client", "ClientTrace", r1, "C08", "a command's return value", xss="64m")
    r2 = copy.deepcopy(recs)
    j = next(j for j, r in enumerate(r2) if r.get("k") == "op" and r["name"].startswith("Set") and r["sent"])
    r2[j]["sent"][0]["payload"][5] ^= 1
    expect_flag(ctx, "client", "ClientTrace", r2, "C16", "one byte of an AUDIT_SET payload", xss="64m")
    sp2, tp2 = ctx.path("st", "cl-scripts17.ndjson"), ctx.path("st", "cl-trace17.ndjson")
    ctx.run_driver(["client-gen", "--seed", 3, "--n", 20, "--len", 12, "--profile", "C17", "--out", sp2])
    ctx.driver_json(["client-run", "--in", sp2, "--out", tp2, "--all"])
    r3 = load(tp2)
    # in the first trace that has one (a trace whose socket went out of step earlier is no longer judged: take
    # one whose operations all returned nil up to there)
    clean, k = True, None
    for idx, r in enumerate(r3):
        if r.get("k") == "reset":
            clean = True
        elif r.get("k") == "op":
            if clean and r["name"] == "WaitForPendingACKs" and r["pops"] > 0 and r["ret"] == "nil":
                k = idx
                break
            clean = clean and r["ret"] == "nil"
    if k is None:
        raise StopIteration
    r3[k]["pops"] += 1
    expect_flag(ctx, "client", "ClientTrace", r3, "C17", "the number of frames WaitForPendingACKs consumed", xss="64m")
    expect_model_rejected(ctx, "client", "MC_Client", fam_client.mc_cfg("C08", 2, False, bug="DeleteIgnoresAck"), "DeleteRule ignores its ACK")
    expect_model_rejected(ctx, "client", "MC_Client", fam_client.mc_cfg("C17", 3, False, bug="AcksNotForgotten"), "consumed ACKs are not forgotten")


def st_netlink(ctx):
    tp = ctx.path("st", "nl.ndjson")
    summ = ctx.driver_json(["netlink-cases", "--seed", 2, "--out", tp, "--rounds", 1, "--senders", 2, "--per-sender", 3])
    recs = [r for r in load(tp)]
    sends = [r for r in recs if r.get("k") == "send" and len(r["payload"]) < 20][:80]
    small = [recs[0], {"k": "reset", "trace": 1}] + sends + [r for r in recs if r.get("k") == "recv"][:60] \
        + [r for r in recs if r.get("k") == "parse"][:60]
    expect_clean(ctx, "client", "NetlinkTrace", small, {"C18"}, xss="64m")
    sends = [i for i, r in enumerate(small) if r.get("k") == "send" and r.get("full")]
    if sends:
        r1 = copy.deepcopy(small)
        r1[sends[0]]["echo"][24] ^= 1      # a byte of the echoed sequence number
        expect_flag(ctx, "client", "NetlinkTrace", r1, "C18", "one byte of what the kernel saw on the wire", xss="64m")
    rv = [i for i, r in enumerate(small) if r.get("k") == "recv"]
    if rv:
        r2 = copy.deepcopy(small)
        r2[rv[0]]["ret"] = "msgs"
        expect_flag(ctx, "client", "NetlinkTrace", r2, "C18", "the result of Receive for a non-kernel datagram", xss="64m")
    expect_model_rejected(ctx, "client", "Netlink", fam_netlink.mc_cfg(2, 2, "LoadStore"), "non-atomic sequence counter")


def st_rule(ctx):
    casep, _, _ = fam_rule.enumerate_cases(ctx, ["cmp", "watch"])
    tp = ctx.path("st", "rule.ndjson")
    ctx.driver_json(["rule-run", "--cases", casep, "--out", tp, "--seed", 5, "--round"])
    recs = load(tp)[:120]
    expect_clean(ctx, "rule", "RuleTrace", recs, {"C06", "C07", "C13"}, xss="512m")
    r1 = copy.deepcopy(recs)
    i = next(i for i, r in enumerate(r1) if r.get("k") == "build" and r["ret"] == "ok")
    r1[i]["wire"][300] ^= 4
    expect_flag(ctx, "rule", "RuleTrace", r1, "C06", "one bit of a built rule", xss="512m")
    r2 = copy.deepcopy(recs)
    j = next(j for j, r in enumerate(r2) if r.get("k") == "round" and r["ok3"])
    r2[j]["wire2"][0] ^= 1
    expect_flag(ctx, "rule", "RuleTrace", r2, "C07", "one bit of the re-encoded rule", xss="512m")
    casef, _, _ = fam_rule.enumerate_cases(ctx, ["watch"])
    tf = ctx.path("st", "flags.ndjson")
    fcases = ctx.path("st", "fcases.ndjson")
    save(fcases, [{"c": "flags", "order": ["a", "F", "S", "k"]}, {"c": "flags", "order": ["w", "p"]}])
    ctx.driver_json(["rule-flags", "--cases", fcases, "--out", tf, "--seed", 1, "--reps", 20])
    r3 = load(tf)
    k = next(k for k, r in enumerate(r3) if r.get("k") == "flags" and r["ret"] == "rule" and r["rule"]["filters"])
    r3[k]["rule"]["filters"][0]["rhs"] = r3[k]["rule"]["filters"][0]["rhs"][:-1]
    expect_flag(ctx, "rule", "RuleTrace", r3, "C14", "the last character of a parsed filter value", xss="512m")


def st_parse(ctx):
    tp = ctx.path("st", "pf.ndjson")
    ctx.driver_json(["parse-fields", "--out", tp, "--seed", 4, "--n", 20])
    recs = load(tp)[:300]
    expect_clean(ctx, "parse", "ParseTrace", recs, {"C12", "C05"})
    r1 = copy.deepcopy(recs)
    i = next(i for i, r in enumerate(r1) if r.get("how") == "untrusted" and r["present"])
    r1[i]["got"][0] ^= 1
    expect_flag(ctx, "parse", "ParseTrace", r1, "C12", "one byte of a decoded value")
    th = ctx.path("st", "ph.ndjson")
    ctx.driver_json(["parse-header", "--out", th, "--seed", 4, "--unknown-stride", 100000, "--random", 0])
    hr = load(th)[:200]
    j = next(j for j, r in enumerate(hr) if r.get("k") == "header")
    hr[j]["pl"]["seq"][-1] = (hr[j]["pl"]["seq"][-1] + 1) % 10
    expect_flag(ctx, "parse", "ParseTrace", hr, "C04", "one digit of the parsed sequence number")


def st_coalesce(ctx):
    tp = ctx.path("st", "ce.ndjson")
    ctx.driver_json(["coalesce-events", "--out", tp, "--seed", 6, "--n", 60, "--modes=false"])
    recs = load(tp)
    expect_clean(ctx, "coalesce", "CoalesceTrace", recs, {"C09", "C15"}, xss="256m")
    r1 = copy.deepcopy(recs)
    i = next(i for i, r in enumerate(r1) if r.get("k") == "event" and r["ret"] == "event" and r["kind"] == "syscall-first")
    victim = next(l for l in r1[i]["locs"] if l[0] == "data" and l[1] and bytes(l[1]) not in (b"syscall", b"arch"))
    r1[i]["locs"] = [l for l in r1[i]["locs"] if not (l[0] == victim[0] and l[1] == victim[1])]
    expect_flag(ctx, "coalesce", "CoalesceTrace", r1, "C09", "removal of one Data entry of an event", xss="256m")
    ti = ctx.path("st", "ci.ndjson")
    ctx.driver_json(["coalesce-iso", "--out", ti, "--seed", 6, "--pools", 10, "--repo", core.REPO])
    r2 = load(ti)
    j = next(j for j, r in enumerate(r2) if r.get("k") == "iso" and j > 3)
    key = sorted(r2[j]["msgs"])[0]
    r2[j]["msgs"][key] = "ffffffffffffffff"
    expect_flag(ctx, "coalesce", "CoalesceTrace", r2, "C15", "the digest of one input message after an operation", xss="256m")
    cfg = "\n".join(["SPECIFICATION MCSpec", "CONSTANTS", " Groups = {1, 2}", " MaxOps = 3", ' Bug = "MutatesInput"', " Dump = FALSE",
                     "INVARIANTS NoFlags", "CHECK_DEADLOCK FALSE"]) + "\n"
    expect_model_rejected(ctx, "coalesce", "MC_Isolation", cfg, "Coalesce mutates its input")


def st_tables(ctx):
    tp = ctx.path("st", "tb.ndjson")
    ctx.driver_json(["tables-dump", "--out", tp, "--repo", core.REPO])
    recs = load(tp)
    small = [r for r in recs if r.get("k") != "type" or r["code"] % 97 == 0 or 1290 < r["code"] < 1340]
    r1 = copy.deepcopy(small)
    i = next(i for i, r in enumerate(r1) if r.get("k") == "type" and r["code"] == 1300)
    r1[i]["back"] = 1301
    expect_flag(ctx, "tables", "TablesTrace", r1, "C20", "the number a type name converts back to", xss="256m")
    r2 = copy.deepcopy(small)
    j = next(j for j, r in enumerate(r2) if r.get("k") == "norm" and r["syscalls"])
    r2[j]["syscalls"].append("no_such_syscall_zz")
    expect_flag(ctx, "tables", "TablesTrace", r2, "C20", "a syscall name added to a normalisation", xss="256m")


def st_normalize(ctx):
    """Beyond the list (DESIGN section 10): the normalisation interpreter is bound as well."""
    prefix = ctx.path("st", "nz")
    rp = ctx.path("st", "res.ndjson")
    ctx.driver_json(["normalize-run", "--out-prefix", prefix, "--shards", 1, "--seed", ctx.seed, "--reps", 1, "--repo", core.REPO, "--resolve-out", rp])
    rr = load(rp)[:120]
    expect_clean(ctx, "normalize", "ResolveTrace", rr, ["X-RESOLVE"], xss="64m")
    r3 = copy.deepcopy(rr)
    i3 = next(i for i, r in enumerate(r3) if r.get("k") == "res" and r["after"]["names"])
    k3 = sorted(r3[i3]["after"]["names"])[0]
    r3[i3]["after"]["names"][k3] += "x"
    expect_flag(ctx, "normalize", "ResolveTrace", r3, "X-RESOLVE", "a resolved name", xss="64m")
    r4 = copy.deepcopy(rr)
    r4[1]["groups"]["by_id"], r4[1]["users"]["by_id"] = r4[1]["users"]["by_id"], r4[1]["groups"]["by_id"]
    expect_flag(ctx, "normalize", "ResolveTrace", r4, "X-RESOLVE", "the user and the group database swapped", xss="64m")
    recs = load(prefix + "0.ndjson")
    table = [r for r in recs if r.get("k") in ("meta", "norm")]
    evs = [r for r in recs if r.get("k") == "nev"][:60]
    expect_clean(ctx, "normalize", "NormalizeTrace", table + evs, ["X-NORMALIZE"], xss="64m")
    r1 = copy.deepcopy(table + evs)
    i = next(i for i, r in enumerate(r1) if r.get("k") == "nev" and r["got"]["action"])
    r1[i]["got"]["action"] += "x"
    expect_flag(ctx, "normalize", "NormalizeTrace", r1, "X-NORMALIZE", "the action of an event", xss="64m")
    r2 = copy.deepcopy(table + evs)
    j = next(j for j, r in enumerate(r2) if r.get("k") == "norm" and r["subject_primary"])
    r2[j]["subject_primary"] = ["pid"] + r2[j]["subject_primary"]
    t = r2[j]["record_types"] + r2[j]["syscalls"]
    k = [r for r in recs if r.get("k") == "nev" and any(x["type"] in t or x["data"].get("syscall") in t for x in r["recs"])][:40]
    expect_flag(ctx, "normalize", "NormalizeTrace", [r for r in r2 if r.get("k") != "nev"] + k, "X-NORMALIZE",
                "the fields an entry looks for as subject_primary", xss="64m")


def st_cache(ctx):
    """Beyond the list: the id cache used by several goroutines at once."""
    tp = ctx.path("st", "cache.ndjson")
    ctx.driver_json(["cache-run", "--out", tp, "--seed", ctx.seed, "--n", 3, "--len", 20, "--conc", 6])
    recs = load(tp)
    expect_clean(ctx, "cache", "CacheTrace", recs, ["CACHE"])
    r1 = copy.deepcopy(recs)
    i = next(i for i, r in enumerate(r1) if r.get("op") == "clookup" and r["store_said"] and not r["called"])
    r1[i]["ret"] = ""
    expect_flag(ctx, "cache", "CacheTrace", r1, "CACHE", "a concurrent lookup answered from another's unfinished entry")
    cfg = "\n".join(["SPECIFICATION MCSpec", "CONSTANTS", ' Procs = {"p1", "p2"}', ' Keys = {"7"}', ' Values = {"alice"}', " MaxCalls = 3",
                     ' Bug = "ReleaseDuringConsult"', "INVARIANTS NoFlags", "CHECK_DEADLOCK FALSE"]) + "\n"
    expect_model_rejected(ctx, "cache", "MC_IdCacheConc", cfg, "lock dropped while the store is consulted")


FAMILIES = [("cache", st_cache), ("normalize", st_normalize), ("reassembler", st_reassembler), ("conc", st_conc), ("client", st_client), ("netlink", st_netlink), ("rule", st_rule),
            ("parse", st_parse), ("coalesce", st_coalesce), ("tables", st_tables)]


def run(tier, seed, only=None):
    ctx = core.Ctx("selftest", tier, seed)
    bad = 0
    for name, fn in FAMILIES:
        if only and name != only:
            continue
        print("selftest %s" % name)
        try:
            fn(ctx)
        except Fail as e:
            print("SELFTEST-FAILED %s" % e)
            bad += 1
        except core.Broken as e:
            print("SELFTEST-BROKEN %s: %s" % (name, e))
            bad += 1
        except StopIteration:
            print("SELFTEST-BROKEN %s: the sampled trace has no record of the kind the corruption needs" % name)
            bad += 1
    print("selftest: %d families failed" % bad if bad else "selftest: every corruption was flagged and every seeded-bug model rejected")
    return 2 if bad else 0
