"""Reassembler family: C01, C02, C03, C10, C19 (sequential) — DESIGN.md section 7.

  MC : TLC checks Reassembler.tla || ReassemblerMonitor.tla exhaustively.
  A  : every bounded behaviour TLC dumped is replayed through the real
       Reassembler; outcomes equal to the model's prediction inherit TLC's
       verdict, the others (and all timed ones, and a sample) are judged.
  B  : seeded random histories of the real code are judged by TLC with the
       same monitor (ReassemblerTrace.tla).
"""
import json
import random
from concurrent.futures import ThreadPoolExecutor

from . import core

INF = 1000000
PLAIN = [1300, 1302, 1303, 1306, 1307, 1309, 1319, 1321, 1326, 1328, 1400, 1700, 2000, 2099]
COMPLETING = [1327, 1299, 1000, 1100, 1105, 1199, 1, 2100, 2101, 2404, 2999, 65535]
TICK_US = 10000

TRACE_CFG = "SPECIFICATION Spec\nPOSTCONDITION AllConsumed\nCHECK_DEADLOCK FALSE\n"

MODEL_INVS = ["NoFlags", "MonitorTracksBuffer", "OrderMatchesBuf", "Sorted", "BoundAfterPush",
              "HeadNotCompleteAfterPush", "NothingStaleAfterCall", "EmptyAfterClose"]

NONTRIVIAL = {
    "C01": ("multi", "distinct histories (configuration + operations) in which some callback delivered a group of two or more records"),
    "C02": ("disorder", "distinct histories in which a record was pushed for a lower sequence number after a higher one (disorder / late arrival)"),
    "C03": ("gap_or_late", "distinct histories containing at least one reported gap or one late arrival (push below the highest delivered sequence)"),
    "C10": ("overflow", "distinct histories in which opening an event took the buffer above maxInFlight"),
    "C19": ("timed_flush", "distinct timed histories in which a push or Maintain made after a real sleep delivered an event"),
}


def mc_cfg(M=16, W=3, Base=14, Width=3, Max=1, Timeout=INF, Arith="serial", MaxOps=4, MaxTicks=0,
           Dump=False, invs=MODEL_INVS, types=(1300, 1327, 1320)):
    c = ["SPECIFICATION MCSpec", "CONSTANTS",
         " M = %d" % M, " W = %d" % W, " Base = %d" % Base, " Width = %d" % Width,
         " MaxInFlight = %d" % Max, " Timeout <- TimeoutDef", " TimeoutP1 = %d" % (Timeout + 1), " Inf = %d" % INF,
         ' Arith = "%s"' % Arith, " Types = {%s}" % ", ".join(map(str, types)),
         " MaxOps = %d" % MaxOps, " MaxTicks = %d" % MaxTicks, " Dump = %s" % ("TRUE" if Dump else "FALSE"),
         "INVARIANTS " + " ".join(list(invs) + (["DumpBehaviours"] if Dump else [])),
         "CHECK_DEADLOCK FALSE"]
    return "\n".join(c) + "\n"


def real_bases(rng, n):
    pool = [0xFFFFFFFE, 0xFFFFFFFF, 0, 1, 0xFFFFFFFD, rng.randrange(0, 2 ** 32), 0xFFFFFFF0, rng.randrange(0, 2 ** 32)]
    rng.shuffle(pool)
    return pool[:n]


SCALE_W3 = (2 ** 24 - 1) // 3     # model offset 3 (= W) -> real offset 2^24-1, the widest legal difference


def beh_to_replays(hist, cfg, rng, bases, next_id, raw_share=0.1, scaled=False):
    """Turn one behaviour TLC dumped (a list of predicted call records) into one replayable
    behaviour with the prediction attached; the runner expands it into one trace per variant
    (real base, offset scale, class-preserving record types, Push instead of PushMessage)."""
    timed = any(r["op"] == "tick" for r in hist)
    ops = [({"op": "push", "off": r["off"], "type": r["type"]} if r["op"] == "push" else {"op": r["op"]}) for r in hist]
    tmo = cfg["Timeout"]
    variants = []
    for bi, base in enumerate(bases):
        v = {"base": {"hi": base >> 16, "lo": base & 0xFFFF}, "inf_kind": rng.randrange(5),
             "retype": rng.randrange(1, 1 << 30), "raw": 10}
        if scaled and bi == len(bases) - 1:
            v["scale"] = SCALE_W3
        variants.append(v)
    b = {"trace": next_id[0], "max": cfg["Max"], "tinf": tmo == INF,
         "timeout_us": 0 if tmo == INF else int((tmo + 0.5) * TICK_US),
         "base": variants[0]["base"], "tick_us": TICK_US,
         "ops": ops, "pred": [dict(r, k="call") for r in hist], "timed": timed, "src": "tlc", "variants": variants}
    next_id[0] += 1
    return [b]


def plan(prop, tier):
    q = tier == "quick"
    p = {}
    if prop == "C19":
        p["dump"] = [dict(Max=m, Timeout=t, MaxTicks=2, MaxOps=4, Width=2 if q else 3)
                     for m in ((0, 1) if q else (0, 1, 2)) for t in ((-1, 0, 1) if q else (-1, 0, 1, 2))]
        p["deep"] = [dict(Max=1, Timeout=1, MaxTicks=3, MaxOps=5 if q else 6, Width=3)]
        if not q:
            p["deep"] += [dict(Max=m, Timeout=t, MaxTicks=3, MaxOps=6, Width=3) for m in (0, 2) for t in (0, 2)]
        p["random"] = [("timed", 300 if q else 4000, 40 if q else 80)]
        p["only_ticked"] = True
    else:
        p["dump"] = [dict(Max=m, Timeout=INF, MaxTicks=0, MaxOps=4 if q else 5, Width=3) for m in (0, 1, 2)]
        # the widest legal window (Width = W+1): replayed with offsets scaled to the real 2^24 window
        p["dump"] += [dict(Max=m, Timeout=INF, MaxTicks=0, MaxOps=4, Width=4)
                      for m in ((1, 3) if prop == "C02" or not q else (2,))]
        p["deep"] = [dict(Max=1, Timeout=INF, MaxTicks=0, MaxOps=5 if q else 6, Width=3 if q else 4)]
        if not q:
            p["deep"] += [dict(Max=m, Timeout=INF, MaxTicks=0, MaxOps=6, Width=4) for m in (0, 2, 3)]
            p["deep"] += [dict(Max=2, Timeout=1, MaxTicks=2, MaxOps=6, Width=3)]
        p["random"] = [("inf", 300 if q else 5000, 60 if q else 200)]
        if prop in ("C01", "C02", "C03", "C10"):
            p["random"].append(("timed", 60 if q else 1000, 40 if q else 80))
        if prop == "C10":
            # eviction "only for cause" has a timed cause as well: a few behaviours with ticks, replayed with real sleeps
            p["dump"] += [dict(Max=1, Timeout=1, MaxTicks=2, MaxOps=4, Width=2)]
        p["only_ticked"] = False
    p["bases"] = 2 if q else 4
    p["sample"] = 50 if q else 20
    return p


def run(ctx):
    prop = ctx.prop
    pl = plan(prop, ctx.tier)
    rng = random.Random(ctx.seed)
    workers_each = max(2, core.NCPU // max(1, len(pl["dump"])))

    # ---- MC: Model || Monitor; dump behaviours ------------------------------
    def mc(c, dump):
        cfg = mc_cfg(Max=c["Max"], Timeout=c["Timeout"], MaxTicks=c["MaxTicks"], MaxOps=c["MaxOps"],
                     Width=c["Width"], Dump=dump)
        return ctx.tlc("reassembler", "MC_Reassembler", cfg, workers=workers_each if dump else core.NCPU,
                       timeout=3000, heap="12g" if not dump else "6g")

    with ThreadPoolExecutor(max_workers=len(pl["dump"])) as ex:
        dumps = list(ex.map(lambda c: mc(c, True), pl["dump"]))
    nbeh = sum(r.nbeh for r in dumps)
    ctx.log("MC (dump): %d configurations, %d behaviours, %d distinct states" %
            (len(dumps), nbeh, sum(r.distinct for r in dumps)))
    deep_states = 0
    for c in pl["deep"]:
        r = mc(c, False)
        deep_states += r.distinct
        ctx.log("MC (deep) %s: %d generated / %d distinct states in %.0fs" % (c, r.generated, r.distinct, r.wall))

    if ctx.tier == "thorough" and prop in ("C02", "C10", "C19"):
        # the model's own state invariants, much deeper, with identities hidden by a VIEW
        for vc in (dict(Max=2, T=INF, Ticks=0, Ops=14, Width=4), dict(Max=1, T=2, Ticks=5, Ops=12, Width=3),
                   dict(Max=0, T=0, Ticks=4, Ops=12, Width=3), dict(Max=3, T=1, Ticks=4, Ops=11, Width=4)):
            cfg = "\n".join(["SPECIFICATION VSpec", "CONSTANTS", " M = 16", " W = 3", " Base = 14", " Width = %d" % vc["Width"],
                             " MaxInFlight = %d" % vc["Max"], " Timeout <- TimeoutDef", " TimeoutP1 = %d" % (vc["T"] + 1), " Inf = %d" % INF,
                             ' Arith = "serial"', " Types = {1300, 1327, 1320}", " MaxOps = %d" % vc["Ops"], " MaxTicks = %d" % vc["Ticks"],
                             "VIEW View",
                             "INVARIANTS BoundAfterPush HeadNotCompleteAfterPush NothingStaleAfterCall EmptyAfterClose OrderMatchesBuf Sorted",
                             "CHECK_DEADLOCK FALSE"]) + "\n"
            r = ctx.tlc("reassembler", "MC_ReassemblerView", cfg, workers=core.NCPU, timeout=3000, heap="16g")
            ctx.log("MC (view) %s: %d generated / %d distinct states" % (vc, r.generated, r.distinct))

    # histories of any length: the inductive invariant of the abstract eventList (ReassemblerInd.tla)
    ind = 0
    if prop in ("C01", "C02", "C03", "C10") and (ctx.tier == "thorough" or prop == "C01"):
        for args in (["--cinit=CInit", "--init=Init", "--inv=IndInv", "--length=0"],
                     ["--cinit=CInit", "--init=IndInit", "--inv=IndInv", "--length=1"],
                     ["--cinit=CInit", "--init=IndInit", "--inv=Safety", "--length=0"]):
            core.apalache_check(ctx, "reassembler", "ReassemblerInd", args)
            ind += 1
        for k, mx in ((3, 1),) if ctx.tier == "quick" else ((3, 0), (3, 2), (4, 1)):
            cfg = "\n".join(["SPECIFICATION Spec", "CONSTANTS", " K = %d" % k, " MaxInFlight = %d" % mx, ' Bug = "none"',
                             "CONSTRAINT Bound", "INVARIANTS IndInv Safety", "CHECK_DEADLOCK FALSE"]) + "\n"
            r = ctx.tlc("reassembler", "MC_ReassemblerInd", cfg, workers=core.NCPU, timeout=1800)
            ctx.log("TLC on the same module (offsets 0..%d, maxInFlight %d, at most 2 records per number): %d distinct states" % (k, mx, r.distinct))
        ctx.log("Apalache discharged the inductive invariant of the eventList for unbounded histories "
                "(Init => IndInv, IndInv /\\ Next => IndInv', IndInv => Safety; offsets 0..5, maxInFlight 0..3)")

    lemma = False
    if prop in ("C02", "C03"):
        lemma = core.apalache_lemma(ctx)
        ctx.log("Apalache proved SeqWindowLemma for M=2^32, W=2^24-1")

    # ---- A: replay every dumped behaviour through the real code ----------------
    behp = ctx.path("replay", "behaviours.ndjson")
    next_id = [1]
    nrep = 0
    index = {}
    with open(behp, "w") as fh:
        for c, res in zip(pl["dump"], dumps):
            for hist in res.behaviours():
                if pl["only_ticked"] and not any(r["op"] == "tick" for r in hist):
                    continue
                for b in beh_to_replays(hist, c, rng, real_bases(rng, pl["bases"]), next_id, scaled=c["Width"] == 4):
                    fh.write(json.dumps(b) + "\n")
                    nrep += len(b["variants"])
    trp = ctx.path("replay", "trace.ndjson")
    summ = ctx.driver_json(["rs-run", "--in", behp, "--out", trp, "--sample", pl["sample"], "--par", 512], timeout=3000)
    st = summ["stats"]
    ctx.log("replayed %d behaviours: %d equal to the prediction (inherit TLC's verdict), %d differ, %d sent to TLC"
            % (nrep, st.get("equal_to_prediction", 0), st.get("differs_from_prediction", 0), st.get("judged_by_tlc", 0)))
    if st.get("differs_from_prediction", 0):
        print("MODEL-DRIFT family=reassembler %d of %d replayed behaviours differ from the model's prediction "
              "(judged on the real trace; first traces: %s)" % (st["differs_from_prediction"], nrep, summ["mismatch_traces"][:5]))
    flags = []
    fa, na = core.judge_traces(ctx, "reassembler", "ReassemblerTrace", TRACE_CFG, trp)
    for f in fa:
        f["src"] = "replay"
    flags += fa

    # ---- B: seeded random histories ------------------------------------------------
    feats = dict(summ["features"])
    nrand, nrec = 0, na
    rand_files = []
    first = 1000000
    for mode, n, length in pl["random"]:
        bp = ctx.path("random", "beh-%s.ndjson" % mode)
        tp = ctx.path("random", "trace-%s.ndjson" % mode)
        ctx.run_driver(["rs-gen", "--seed", ctx.seed, "--n", n, "--len", length, "--mode", mode, "--first", first, "--out", bp])
        s2 = ctx.driver_json(["rs-run", "--in", bp, "--out", tp, "--all", "--par", 256], timeout=3000)
        first += n
        nrand += n
        for k, v in s2["features"].items():
            feats[k] = feats.get(k, 0) + v
        fb, nb = core.judge_traces(ctx, "reassembler", "ReassemblerTrace", TRACE_CFG, tp)
        for f in fb:
            f["src"] = "random-" + mode
        flags += fb
        nrec += nb
        rand_files.append(bp)
    ctx.log("random histories: %d traces; %d call records judged by TLC in total; %d flags (all properties)"
            % (nrand, nrec, len(flags)))

    # ---- verdict -----------------------------------------------------------------
    def replay_of(flag):
        want = flag.get("trace")
        files = [(x, False) for x in rand_files] if str(flag.get("src", "")).startswith("random") else [(behp, True)]
        for p, packed in files:
            key = want // 16 if packed else want
            with open(p) as fh:
                for line in fh:
                    if '"trace": %d,' % key in line[:40] or '"trace":%d,' % key in line[:40]:
                        b = json.loads(line)
                        if b["trace"] == key:
                            b.pop("pred", None)
                            if packed and want % 16 < len(b.get("variants", [])):      # keep only the flagged variant
                                b["variants"] = [b["variants"][want % 16]]
                            return {"family": "reassembler", "behaviour": b}
        return {"family": "reassembler", "trace": want}

    samples = []
    with open(trp) as fh:
        for i, line in enumerate(fh):
            if 1 <= i <= 4:
                samples.append(json.loads(line))
    key, rule = NONTRIVIAL[prop]
    coverage = {
        "states": ctx.states, "transitions": ctx.transitions,
        "traces_validated_against_impl": nrep + nrand,
        "samples": samples,
        "evaluations": nrep + nrand,
        "distinct_nontrivial": feats.get(key, 0),
        "rule": rule,
        "behaviours_from_tlc_replayed": nrep,
        "replays_equal_to_model_prediction": st.get("equal_to_prediction", 0),
        "replays_differing_from_model": st.get("differs_from_prediction", 0),
        "random_traces": nrand,
        "call_records_judged_by_tlc": nrec,
        "model_configs": pl["dump"] + pl["deep"],
        "features_distinct_histories": feats,
        "seq_window_lemma_proved_by_apalache": lemma,
        "eventlist_inductive_obligations_discharged_by_apalache": ind,
    }
    assumptions = [
        "sequence numbers of a history stay inside one 2^24 window (the property's quantifier); offsets are mapped to uint32 by the harness",
        "model constants are small (M=16, W=3) in TLC; the real constants are tied to offset order by SeqWindowLemma (Apalache)",
        "real time is observed as [t0,t1] microsecond intervals around each call; undecidable timing cases are not judged",
    ]
    return core.verdict(ctx, "model_checking", coverage, flags, replay_of, assumptions)


def replay(ctx, payload):
    """Re-execute one saved behaviour against the current tree and re-judge it."""
    b = payload["case"]["behaviour"]
    bp = ctx.path("replay1", "beh.ndjson")
    open(bp, "w").write(json.dumps(b) + "\n")
    tp = ctx.path("replay1", "trace.ndjson")
    ctx.driver_json(["rs-run", "--in", bp, "--out", tp, "--all"])
    flags, _ = core.judge_traces(ctx, "reassembler", "ReassemblerTrace", TRACE_CFG, tp, parts=1)
    mine = [f for f in flags if f["prop"] == ctx.prop]
    for f in mine:
        print("  reason: %s" % json.dumps(f))
    if mine:
        print("VIOLATION property=%s replay=%s" % (ctx.prop, payload.get("_path", "?")))
        return 1
    print("replay: no flag for %s on the current tree" % ctx.prop)
    return 0
