"""Client family: C08 (verdicts), C16 (audit_status wire format), C17 (ACK bookkeeping,
Close, returned data) — DESIGN.md section 7.

  MC : TLC checks AuditClient.tla (client + scripted kernel) || ClientMonitor.tla.
  A  : every dumped behaviour (operations + kernel scripts) is replayed on the real
       AuditClient through a simulated kernel behind the exported Netlink field.
  B  : seeded random scripts (all setters, random status/rule payloads, up to 9
       transient failures, unsolicited events at every gap) judged by TLC.
"""
import json
import random

from . import core

TRACE_CFG = "SPECIFICATION Spec\nPOSTCONDITION AllConsumed\nCHECK_DEADLOCK FALSE\n"

INVS = "NoFlags PendingTracked CloseOnce"


def mc_cfg(profile, max_ops, dump, bug="none"):
    return "\n".join([
        "SPECIFICATION MCSpec", "CONSTANTS",
        ' Bug = "%s"' % bug, " MaxOps = %d" % max_ops, " Dump = %s" % str(dump).upper(), ' Profile = "%s"' % profile,
        "INVARIANTS " + INVS + (" DumpBehaviours" if dump else ""), "CHECK_DEADLOCK FALSE"]) + "\n"


def plan(prop, tier):
    q = tier == "quick"
    if prop == "C08":
        return dict(dump=[("C08", 2)], deep=[("C08", 3 if q else 4)], keep=0.5 if q else 1.0,
                    random=[("C08", 400 if q else 40000, 12 if q else 25), ("C17", 150 if q else 10000, 14)], cases=False)
    if prop == "C17":
        return dict(dump=[("C17", 4 if q else 5)], deep=[("C17", 6 if q else 7)], keep=1.0,
                    random=[("C17", 400 if q else 30000, 14 if q else 30)], cases=False)
    return dict(dump=[("C16", 2)], deep=[("C16", 3)], keep=1.0,
                random=[("C08", 200 if q else 20000, 12), ("C17", 100 if q else 10000, 12)], cases=True)


def run(ctx):
    prop = ctx.prop
    pl = plan(prop, ctx.tier)
    rng = random.Random(ctx.seed)
    flags = []
    scriptp = ctx.path("client", "scripts.ndjson")
    nrep = 0
    samples = []
    with open(scriptp, "w") as fh:
        for profile, depth in pl["dump"]:
            res = ctx.tlc("client", "MC_Client", mc_cfg(profile, depth, True), workers=core.NCPU, timeout=3000, heap="16g")
            for hist in res.behaviours():
                if pl["keep"] < 1.0 and rng.random() > pl["keep"]:
                    continue
                nrep += 1
                ops = [{"name": r["name"], "mode": r["mode"], "value": r["value"], "arg": r["arg"], "plan": r["plan"]} for r in hist]
                fh.write(json.dumps({"trace": nrep, "ops": ops, "pred": hist, "src": "tlc"}) + "\n")
                if len(samples) < 2:
                    samples.append([{"name": o["name"], "mode": o["mode"], "plan": o["plan"]} for o in ops])
            ctx.log("MC (dump) profile %s depth %d: %d distinct states, %d behaviours" % (profile, depth, res.distinct, res.nbeh))
    for profile, depth in pl["deep"]:
        res = ctx.tlc("client", "MC_Client", mc_cfg(profile, depth, False), workers=core.NCPU, timeout=3000, heap="16g")
        ctx.log("MC (deep) profile %s depth %d: %d generated / %d distinct states" % (profile, depth, res.generated, res.distinct))

    if prop == "C17":
        # concurrent Close at the design level: sync.Once with 2-3 closers, and the check-then-act variant must fail
        for closers, setpid in ((2, True), (3, True), (3, False)):
            cfg = "\n".join(["SPECIFICATION Spec", "CONSTANTS", " Closers = {%s}" % ", ".join(map(str, range(1, closers + 1))),
                             " SetPidUsed = %s" % str(setpid).upper(), ' Bug = "none"',
                             "INVARIANTS ClosedAtMostOnce PidClearedAtMostOnce ExactlyOnceWhenDone", "PROPERTY EveryoneReturns",
                             "CHECK_DEADLOCK FALSE"]) + "\n"
            ctx.tlc("client", "CloseOnce", cfg, workers=2, timeout=600)
        bug = ctx.tlc("client", "CloseOnce", cfg.replace('Bug = "none"', 'Bug = "CheckThenAct"').replace("PROPERTY EveryoneReturns\n", ""),
                      workers=2, timeout=600, expect_violation=True)
        if not bug.violation:
            raise core.Broken("the check-then-act Close model was not rejected: vacuous CloseOnce invariants")
        ctx.log("CloseOnce model: sync.Once with 2-3 concurrent closers closes and clears the PID exactly once; every caller returns")

    # ---- A -------------------------------------------------------------------------------
    trp = ctx.path("client", "trace.ndjson")
    every = prop == "C16"     # C16 reads the request bytes of every record: no inheritance
    args = ["client-run", "--in", scriptp, "--out", trp, "--par", 512] + (["--all"] if every else ["--sample", 25])
    summ = ctx.driver_json(args, timeout=3000)
    st = summ["stats"]
    ctx.log("replayed %d scripted behaviours: %d equal to the prediction, %d differ, %d sent to TLC"
            % (nrep, st.get("equal_to_prediction", 0), st.get("differs_from_prediction", 0), st.get("judged_by_tlc", 0)))
    if st.get("differs_from_prediction"):
        print("MODEL-DRIFT family=client %d of %d replayed behaviours differ from the model's prediction (first: %s)"
              % (st["differs_from_prediction"], nrep, summ["mismatch_traces"][:5]))
    fa, nrec = core.judge_traces(ctx, "client", "ClientTrace", TRACE_CFG, trp, xss="64m")
    flags += fa
    feats = dict(summ["features"])

    # ---- B -------------------------------------------------------------------------------
    nrand = 0
    first = 1000000
    files = [scriptp]
    for profile, n, length in pl["random"]:
        sp = ctx.path("client", "rand-%s.ndjson" % profile)
        tp = ctx.path("client", "rtrace-%s.ndjson" % profile)
        ctx.run_driver(["client-gen", "--seed", ctx.seed, "--n", n, "--len", length, "--profile", profile, "--first", first, "--out", sp]
                       + (["--sweep"] if prop == "C08" and profile == "C08" else []))
        s2 = ctx.driver_json(["client-run", "--in", sp, "--out", tp, "--all", "--par", 256], timeout=3000)
        for k, v in s2["features"].items():
            feats[k] = feats.get(k, 0) + v
        fb, nb = core.judge_traces(ctx, "client", "ClientTrace", TRACE_CFG, tp, xss="64m")
        flags += fb
        nrec += nb
        nrand += n
        first += n
        files.append(sp)
    ncases = 0
    if pl["cases"]:
        cp = ctx.path("client", "cases.ndjson")
        s3 = ctx.driver_json(["client-cases", "--seed", ctx.seed, "--out", cp, "--maxlen", 80 if ctx.tier == "quick" else 400,
                              "--reps", 2 if ctx.tier == "quick" else 20])
        ncases = s3["stats"]["constants"] + s3["stats"]["fromwire"]
        fc, nc = core.judge_traces(ctx, "client", "ClientTrace", TRACE_CFG, cp, parts=1)
        for f in fc:
            f["case_file"] = "cases"
        flags += fc
        nrec += nc
    ctx.log("random scripts: %d; %d records judged by TLC; %d flags (all properties)" % (nrand, nrec, len(flags)))

    def replay_of(flag):
        want = flag.get("trace")
        if want >= 7000000:
            return {"family": "client", "mode": "cases", "seed": ctx.seed, "trace": want}
        for p in files:
            with open(p) as fh:
                for line in fh:
                    s = json.loads(line)
                    if s["trace"] == want:
                        s.pop("pred", None)
                        return {"family": "client", "mode": "script", "script": s}
        return {"trace": want}

    nontrivial = {"C08": ("kernel_error", "distinct scripts in which the kernel answered at least one request with a non-zero errno"),
                  "C17": ("nowait", "distinct scripts containing at least one NoWait request"),
                  "C16": ("any", "every script sends at least one request whose bytes are compared with the UAPI layout")}[prop]
    coverage = {
        "states": ctx.states, "transitions": ctx.transitions,
        "traces_validated_against_impl": nrep + nrand,
        "samples": samples,
        "evaluations": nrep + nrand + ncases,
        "distinct_nontrivial": feats.get(nontrivial[0], nrep + nrand) if nontrivial[0] != "any" else nrep + nrand,
        "rule": nontrivial[1],
        "behaviours_from_tlc_replayed": nrep,
        "replays_equal_to_model_prediction": st.get("equal_to_prediction", 0),
        "replays_differing_from_model": st.get("differs_from_prediction", 0),
        "random_scripts": nrand, "records_judged_by_tlc": nrec, "per_record_cases": ncases,
        "features": feats,
    }
    assumptions = [
        "the kernel is simulated behind the exported Netlink field: one shared receive buffer, sequence numbers from 1, frames queued per request as scripted",
        "C08 verdicts are judged only when no NoWait ACK is outstanding and the socket is in step (a malformed or out-of-quantifier script ends judgement for that trace)",
        "transient receive failures are limited to 9 in a row (the property's quantifier); EAGAIN is used sparingly because each costs a real 50 ms sleep",
    ]
    return core.verdict(ctx, "model_checking", coverage, flags, replay_of, assumptions)


def replay(ctx, payload):
    case = payload["case"]
    tp = ctx.path("client", "trace.ndjson")
    if case.get("mode") == "script":
        sp = ctx.path("client", "script.ndjson")
        open(sp, "w").write(json.dumps(case["script"]) + "\n")
        ctx.driver_json(["client-run", "--in", sp, "--out", tp, "--all"])
    else:
        ctx.driver_json(["client-cases", "--seed", case.get("seed", 1), "--out", tp])
    flags, _ = core.judge_traces(ctx, "client", "ClientTrace", TRACE_CFG, tp, parts=1, xss="64m")
    mine = [f for f in flags if f["prop"] == ctx.prop]
    viol, found = core.classify(ctx.prop, mine)
    for f in viol:
        print("  reason: %s" % json.dumps(f))
    if viol:
        print("VIOLATION property=%s replay=%s" % (ctx.prop, payload.get("_path", "?")))
        return 1
    print("replay: no flag for %s on the current tree" % ctx.prop)
    return 0
