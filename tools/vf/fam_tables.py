"""C20: name/number tables — a complete dump of every table entry, judged by TLC with
Tables.tla (round trips, alias classes, uniqueness, membership, determinism)."""
import json

from . import core

TRACE_CFG = "SPECIFICATION Spec\nPOSTCONDITION AllConsumed\nCHECK_DEADLOCK FALSE\n"


def run(ctx):
    tp = ctx.path("tables", "dump.ndjson")
    stats = ctx.driver_json(["tables-dump", "--out", tp, "--repo", core.REPO], timeout=1800)["stats"]
    ctx.log("dumped: %s" % stats)
    # the monitor accumulates across records, so the dump is judged as one trace
    flags, nrec = core.judge_traces(ctx, "tables", "TablesTrace", TRACE_CFG, tp, split=False, timeout=3000, xss="256m")
    samples = []
    seen = set()
    with open(tp) as fh:
        for line in fh:
            r = json.loads(line)
            if r.get("k") not in seen and r.get("k") not in ("meta", "end") and len(samples) < 8:
                seen.add(r.get("k"))
                samples.append(r)

    def replay_of(flag):
        with open(tp) as fh:
            for i, line in enumerate(fh, 1):
                if i == flag.get("line"):
                    return {"family": "tables", "record": json.loads(line)}
        return {"family": "tables"}

    total = sum(stats.values())
    coverage = {
        "evaluations": total, "distinct_nontrivial": total, "exhaustive": True,
        "rule": "one record per table entry (65536 record type codes, every errno name and number, every architecture, every per-architecture syscall entry, every rule field/operator/comparison, every normalisation); each entry is distinct",
        "samples": samples, "tables": stats, "records_judged_by_tlc": nrec,
    }
    assumptions = [
        "the normalisation file is read from <repo>/aucoalesce/normalizations.yaml (the file that is embedded at build time) and parsed independently with yaml.v3",
        "categorisation determinism is probed with three visiting orders (ascending, stride 4099, seeded permutation)",
    ]
    return core.verdict(ctx, "exploration", coverage, flags, replay_of, assumptions)


def replay(ctx, payload):
    return run(ctx)
