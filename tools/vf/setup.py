"""./check setup: offline sanity of the tool chain; warms the Go build cache."""
import os
import shutil
import subprocess
import sys

from . import core


def run():
    for tool in ("java", "go", "python3"):
        if not shutil.which(tool):
            print("setup: %s not found" % tool, file=sys.stderr)
            return 2
    ctx = core.Ctx("setup", "quick", 1)
    try:
        ctx.driver(False)
        ctx.driver(True)
    except core.Broken as e:
        print("setup: %s" % e, file=sys.stderr)
        return 2
    # parse every top-level module with SANY
    bad = 0
    for fam in sorted(os.listdir(core.SPEC)):
        d = os.path.join(core.SPEC, fam)
        if not os.path.isdir(d) or fam == "common":
            continue
        work = ctx.path("sany-" + fam, "x")[:-2]
        for sub in ("common", fam):
            for f in os.listdir(os.path.join(core.SPEC, sub)):
                if f.endswith(".tla"):
                    shutil.copy(os.path.join(core.SPEC, sub, f), work)
        for f in sorted(os.listdir(d)):
            if not f.endswith(".tla"):
                continue
            p = subprocess.run(["java", "-Djava.io.tmpdir=" + work, "-cp", core.JAR, "tla2sany.SANY", f], cwd=work,
                               stdout=subprocess.PIPE, stderr=subprocess.STDOUT, text=True)
            if p.returncode != 0 or "*** Errors" in p.stdout or "Fatal errors" in p.stdout:
                print("setup: SANY rejects %s/%s\n%s" % (fam, f, p.stdout[-1500:]), file=sys.stderr)
                bad += 1
    print("setup: harness builds against %s; %s" % (core.REPO, "all specifications parse" if not bad else "%d modules fail" % bad))
    return 0 if not bad else 2
