"""Rule family: C06 (byte-exact audit_rule_data), C07 (decode/print/re-encode identity),
C13 (totality, structural validity), C14 (flag token accounting) — DESIGN.md section 7.

TLC enumerates the case analysis (RuleCases.tla); the harness instantiates each case with
seeded values, runs the real flags.Parse / rule.Build / rule.ToCommandLine, and TLC judges
every record with RuleMonitor.tla (Encode, StructurallyValid, RuleFlags are TLA+ definitions
written from the Linux UAPI and the property statements)."""
import json

from . import core

TRACE_CFG = "SPECIFICATION Spec\nPOSTCONDITION AllConsumed\nCHECK_DEADLOCK FALSE\n"

FAMILIES = {
    "C06": ["fop", "shape", "cmp", "watch", "nfields", "sysnum"],
    "C07": ["fop", "shape", "cmp", "watch", "nfields", "sysnum"],
    "C13": ["decode", "flags"],
    "C14": ["flags"],
}


def enumerate_cases(ctx, fams):
    cfg = "SPECIFICATION Spec\nCONSTANTS\n Family = {%s}\nINVARIANT Emit\n" % ", ".join('"%s"' % f for f in fams)
    res = ctx.tlc("rule", "RuleCases", cfg, workers=4, timeout=1200)
    p = ctx.path("rule", "cases.ndjson")
    n = 0
    kinds = {}
    with open(p, "w") as fh:
        for c in res.lines("CASE"):
            fh.write(json.dumps(c) + "\n")
            kinds[c["c"]] = kinds.get(c["c"], 0) + 1
            n += 1
    ctx.log("TLC enumerated %d cases: %s" % (n, kinds))
    return p, n, kinds


def run(ctx):
    prop = ctx.prop
    q = ctx.tier == "quick"
    casep, ncases, kinds = enumerate_cases(ctx, FAMILIES[prop])
    flags, nrec, stats = [], 0, {}
    traces = []
    if prop in ("C06", "C07"):
        tp = ctx.path("rule", "build.ndjson")
        args = ["rule-run", "--cases", casep, "--out", tp, "--seed", ctx.seed, "--reps", 1 if q else 6,
                "--random", 3000 if q else 60000]
        if prop == "C07":
            args.append("--round")
        stats = ctx.driver_json(args, timeout=3000)["stats"]
        traces.append(tp)
    elif prop == "C13":
        tp = ctx.path("rule", "total.ndjson")
        stats = ctx.driver_json(["rule-total", "--cases", casep, "--out", tp, "--seed", ctx.seed, "--random", 300 if q else 30000],
                                timeout=3000)["stats"]
        traces.append(tp)
        tp2 = ctx.path("rule", "build.ndjson")      # Build/Parse totals on the well-formed cases too
        casep2, n2, k2 = enumerate_cases(ctx, ["nfields", "sysnum", "shape"])
        s2 = ctx.driver_json(["rule-run", "--cases", casep2, "--out", tp2, "--seed", ctx.seed, "--reps", 1 if q else 4,
                              "--random", 500 if q else 10000], timeout=3000)["stats"]
        ncases += n2
        stats.update({"wellformed_" + k: v for k, v in s2.items()})
        traces.append(tp2)
    else:
        tp = ctx.path("rule", "flags.ndjson")
        stats = ctx.driver_json(["rule-flags", "--cases", casep, "--out", tp, "--seed", ctx.seed, "--reps", 2 if q else 120],
                                timeout=3000)["stats"]
        traces.append(tp)
    ctx.log("real code: %s" % stats)
    samples = []
    for tp in traces:
        f, n = core.judge_traces(ctx, "rule", "RuleTrace", TRACE_CFG, tp, xss="512m", timeout=3000,
                                 parts=max(1, min(core.NCPU, sum(1 for _ in open(tp)) // 300)))
        for x in f:
            x["file"] = tp
        flags += f
        nrec += n
        with open(tp) as fh:
            for line in fh:
                if len(samples) < 3 and '"k":"meta"' not in line and len(line) < 6000:
                    r = json.loads(line)
                    r.pop("wire", None)
                    samples.append(r)
    ctx.log("%d records judged by TLC, %d flags (all properties)" % (nrec, len(flags)))

    def replay_of(flag):
        with open(flag["file"]) as fh:
            for i, line in enumerate(fh, 1):
                r = json.loads(line)
                if r.get("trace") == flag.get("trace") and r.get("k") != "meta":
                    keep = {k: v for k, v in r.items() if k not in ("wire", "wire2")}
                    if r.get("k") == "total" and r.get("fn") == "decode":
                        keep["wire"] = r.get("wire")
                    return {"family": "rule", "record": keep, "seed": ctx.seed, "tier": ctx.tier}
        return {"family": "rule", "seed": ctx.seed, "tier": ctx.tier}

    evals = sum(v for k, v in stats.items() if isinstance(v, int) and not k.startswith("wellformed_rules"))
    nontrivial = {
        "C06": (stats.get("build_ok", 0), "rules accepted by flags.Parse and rule.Build whose bytes were compared with Encode (each a distinct case instantiation or random rule)"),
        "C07": (stats.get("round_trips", 0), "accepted rules inside C07's domain taken through ToCommandLine -> Parse -> Build -> ToCommandLine"),
        "C13": (stats.get("decode_ok", 0) + stats.get("decode_err", 0) + stats.get("build_err", 0) + stats.get("parse_err", 0),
                "hostile inputs (mutated header words, truncations, random bytes, out-of-range syscall numbers, >64 filters, malformed lines) that the functions answered"),
        "C14": (stats.get("flags_rule", 0), "flag lines that flags.Parse accepted and whose rule was compared token by token with the arguments"),
    }[prop]
    coverage = {
        "evaluations": nrec, "distinct_nontrivial": nontrivial[0], "rule": nontrivial[1], "samples": samples,
        "cases_enumerated_by_tlc": ncases, "case_kinds": kinds, "real_code": stats, "records_judged_by_tlc": nrec,
        "states": ctx.states, "transitions": ctx.transitions,
    }
    assumptions = [
        "UAPI.tla is a faithful transcription of linux/audit.h, elf-em.h, stat.h, errno and the x86 syscall tables for the names the generator uses",
        "the host is little-endian amd64 (b64 = x86_64, b32 = i386); uid/gid 0 is named root",
        "values are sampled (seeded); the case analysis (field x operator x value class x list, shapes, comparisons, watches, counts, header words x boundary values, flag orders) is enumerated completely by TLC",
    ]
    return core.verdict(ctx, "exploration", coverage, flags, replay_of, assumptions)


def replay(ctx, payload):
    case = payload["case"]
    ctx.seed = case.get("seed", 1)
    ctx.tier = case.get("tier", "quick")
    return run(ctx)
