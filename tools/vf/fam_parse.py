"""Parser family: C04 (header), C05 (totality), C12 (kernel-encoded values) — DESIGN.md section 7.

TLC enumerates the input grammar (ParseCases.tla); the harness instantiates it, adds all 65536
type codes, mutated corpora and random bytes, runs the real auparse code and TLC judges every
record with ParseMonitor.tla (HeaderLine, EncodeUntrusted, sockaddr layout, errno/arch names are
TLA+ definitions written from the kernel's formats)."""
import json

from . import core

TRACE_CFG = "SPECIFICATION Spec\nPOSTCONDITION AllConsumed\nCHECK_DEADLOCK FALSE\n"


def enumerate_cases(ctx, fams):
    cfg = "SPECIFICATION Spec\nCONSTANTS\n Family = {%s}\nINVARIANT Emit\n" % ", ".join('"%s"' % f for f in fams)
    res = ctx.tlc("parse", "ParseCases", cfg, workers=4, timeout=1200)
    p = ctx.path("parse", "cases.ndjson")
    n, kinds = 0, {}
    with open(p, "w") as fh:
        for c in res.lines("CASE"):
            fh.write(json.dumps(c) + "\n")
            kinds[c["c"]] = kinds.get(c["c"], 0) + 1
            n += 1
    ctx.log("TLC enumerated %d parser cases: %s" % (n, kinds))
    return p, n, kinds


def run(ctx):
    prop = ctx.prop
    q = ctx.tier == "quick"
    tp = ctx.path("parse", "trace.ndjson")
    ncases, kinds = 0, {}
    if prop == "C04":
        stats = ctx.driver_json(["parse-header", "--out", tp, "--seed", ctx.seed, "--unknown-stride", 16 if q else 1,
                                 "--random", 3000 if q else 1500000], timeout=3000)["stats"]
        nontrivial = (stats.get("headers", 0), "well-formed headers with distinct (type code, name form, seconds, milliseconds, sequence, body) and every malformed variant")
        exhaustive_note = "all 65536 type codes are written by the library's name and (for every n-th code) as UNKNOWN[n]"
    elif prop == "C12":
        stats = ctx.driver_json(["parse-fields", "--out", tp, "--seed", ctx.seed, "--n", 1500 if q else 400000], timeout=3000)["stats"]
        nontrivial = (stats.get("untrusted", 0) + stats.get("execve_args", 0) + stats.get("saddr", 0),
                      "random values that the kernel encoding turns into quoted or hex text, through every decoding path, plus socket addresses")
        exhaustive_note = "every (arch, syscall number) of the exported tables for the 9 architectures with a UAPI code, and every errno 1..133, are swept completely"
    else:
        casep, ncases, kinds = enumerate_cases(ctx, ["shape", "pair", "saddr", "selinux", "avc", "execve", "header"])
        stats = ctx.driver_json(["parse-total", "--cases", casep, "--out", tp, "--seed", ctx.seed, "--reps", 2 if q else 40,
                                 "--mutations", 150 if q else 6000, "--random", 20000 if q else 1000000, "--repo", core.REPO],
                                timeout=6000)["stats"]
        nontrivial = (stats.get("ret_ok", 0), "inputs on which the parser returned a message whose Data/Tags/ToMapStr were then called repeatedly")
        exhaustive_note = "the case grammar (record type x field x value shape, sockaddr family x length, SELinux parts, AVC forms, EXECVE shapes, header defects) is enumerated completely by TLC; strings are sampled"
    ctx.log("real code: %s" % stats)
    n = sum(1 for _ in open(tp))
    flags, nrec = core.judge_traces(ctx, "parse", "ParseTrace", TRACE_CFG, tp, xss="256m", timeout=3000,
                                    parts=max(1, min(core.NCPU, n // 1500)))
    samples = []
    with open(tp) as fh:
        for line in fh:
            if len(samples) < 3 and '"k":"meta"' not in line and len(line) < 5000:
                samples.append(json.loads(line))

    def replay_of(flag):
        with open(tp) as fh:
            for line in fh:
                if '"trace":%d,' % flag.get("trace", -1) in line or '"trace":%d}' % flag.get("trace", -1) in line:
                    r = json.loads(line)
                    if r.get("trace") == flag.get("trace"):
                        return {"family": "parse", "record": r, "seed": ctx.seed, "tier": ctx.tier}
        return {"family": "parse", "seed": ctx.seed, "tier": ctx.tier}

    coverage = {
        "evaluations": nrec, "distinct_nontrivial": nontrivial[0], "rule": nontrivial[1], "samples": samples,
        "real_code": stats, "records_judged_by_tlc": nrec, "cases_enumerated_by_tlc": ncases, "case_kinds": kinds,
        "swept_completely": exhaustive_note, "states": ctx.states, "transitions": ctx.transitions,
    }
    assumptions = [
        "AuditRecord.tla states the kernel's formats (audit_log_untrustedstring, struct sockaddr, log header) and the errno / AUDIT_ARCH numbers",
        "@timestamp is compared with Go's time.Unix(sec, ms).UTC().String() computed by the harness",
        "C12 values stay inside the property's exclusions (no leading/trailing quote, no trailing backslash, not a placeholder); values nested in msg='...' contain no single quote when written quoted",
    ]
    return core.verdict(ctx, "exploration", coverage, flags, replay_of, assumptions)


def replay(ctx, payload):
    case = payload["case"]
    ctx.seed = case.get("seed", 1)
    ctx.tier = case.get("tier", "quick")
    return run(ctx)
