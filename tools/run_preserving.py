#!/usr/bin/env python3
"""run_preserving.py [--tier quick] [ids...] — the property-preserving matrix (DESIGN.md section 13).

For every /verif/preserving/<id>/ (or the ids given): apply patch.diff to a scratch worktree of /repo's
HEAD and run the checks of the change's family against it (VERIF_REPO; evidence and replays go to a
scratch directory).  Every check must exit 0: a VIOLATION here is a false alarm, exit 2 a robustness
defect of the machinery.  Patches that no longer apply to HEAD are reported and skipped."""
import json
import os
import shutil
import subprocess
import sys
import tempfile

V = os.path.dirname(os.path.dirname(os.path.abspath(__file__)))
FAMILY = {
    "rs": ["C01", "C02", "C03", "C10", "C19", "C11"],
    "client": ["C08", "C16", "C17", "C18"],
    "rule": ["C06", "C07", "C13", "C14", "C20"],
    "parse": ["C04", "C05", "C12", "C20"],
    "coalesce": ["C09", "C15", "C20"],
}
OF = {"C01": "rs", "C02": "rs", "C03": "rs", "C10": "rs", "C19": "rs", "C11": "rs", "C08": "client", "C16": "client", "C17": "client",
      "C18": "client", "C06": "rule", "C07": "rule", "C13": "rule", "C14": "rule", "C04": "parse", "C05": "parse", "C12": "parse",
      "C09": "coalesce", "C15": "coalesce"}


def main():
    args = sys.argv[1:]
    tier = "quick"
    if args[:1] == ["--tier"]:
        tier, args = args[1], args[2:]
    ids = args or sorted(os.listdir(os.path.join(V, "preserving")))
    wt = tempfile.mkdtemp(prefix="preswt-")
    out = tempfile.mkdtemp(prefix="presout-")
    os.rmdir(wt)
    subprocess.check_call(["git", "-C", "/repo", "worktree", "add", "-q", "--detach", wt, "HEAD"])
    bad = 0
    try:
        for pid in ids:
            d = os.path.join(V, "preserving", pid)
            prop = pid.split("-")[0]
            checks = FAMILY[OF[prop]] if prop in OF else ["C20", "C04", "C06", "C07", "C09"]
            subprocess.check_call(["git", "-C", wt, "checkout", "-q", "--", "."])
            subprocess.call(["git", "-C", wt, "clean", "-qfd"])
            ap = subprocess.run(["git", "-C", wt, "apply", os.path.join(d, "patch.diff")], stderr=subprocess.PIPE, text=True)
            if ap.returncode != 0:
                print("%-8s DOES-NOT-APPLY-TO-HEAD (skipped)" % pid, flush=True)
                continue
            for c in checks:
                env = dict(os.environ, VERIF_REPO=wt, VERIF_OUT_DIR=out)
                p = subprocess.run([os.path.join(V, "check"), c, "--tier", tier], cwd=V, env=env,
                                   stdout=subprocess.PIPE, stderr=subprocess.STDOUT, text=True)
                drift = any(l.startswith("MODEL-DRIFT") for l in p.stdout.splitlines())
                reason = next((l.strip()[:160] for l in p.stdout.splitlines() if "reason:" in l or "CHECK-BROKEN" in l), "")
                print("%-8s %-4s %s exit=%d%s %s" % (pid, c, "ok" if p.returncode == 0 else "ALARM", p.returncode,
                                                     " (model drift)" if drift else "", reason), flush=True)
                if p.returncode != 0:
                    bad += 1
    finally:
        subprocess.call(["git", "-C", "/repo", "worktree", "remove", "--force", wt])
        shutil.rmtree(out, True)
    print("preserving matrix: %d alarms" % bad)
    return 1 if bad else 0


if __name__ == "__main__":
    sys.exit(main())
