#!/bin/bash
# confirm_mutant.sh <mutant dir (patch.diff, demo file)> <demo file name> <dest path relative to repo root> <run regex> [pkg dir]
# DEMO_FLAGS (environment) adds flags to the demo run, e.g. "-race" or "-tags verif".
# Confirms in a scratch worktree: builds (with and without -tags verif), the whole
# suite passes with the change, the demo fails with it and passes without it.
set -u
MD=$1; DEMO=$2; DEST=$3; RUN=$4; PKG=${5:-.}
export GOFLAGS=-mod=mod GOPROXY=off GOSUMDB=off GOTOOLCHAIN=local
WT=$(mktemp -d /tmp/confirm.XXXXXX)
git -C /repo worktree add -q --detach "$WT" HEAD || exit 2
cleanup() { git -C /repo worktree remove --force "$WT" 2>/dev/null; rm -rf "$WT"; }
trap cleanup EXIT
cd "$WT"
git apply "$MD/patch.diff" || { echo "CONFIRM patch does not apply"; exit 2; }
B1=ok; go build ./... >/dev/null 2>&1 || B1=FAIL
B2=ok; go build -tags verif ./... >/dev/null 2>&1 || B2=FAIL
S=ok; go test -vet=off -count=1 ./... >/tmp/confirm_suite.log 2>&1 || S=FAIL
cp "$MD/$DEMO" "$WT/$DEST"
D1=fails; (cd $PKG && go test ${DEMO_FLAGS:-} -vet=off -count=1 -run "$RUN" . >/tmp/confirm_demo1.log 2>&1) && D1=PASSES
git checkout -q -- . 
D2=passes; (cd $PKG && go test ${DEMO_FLAGS:-} -vet=off -count=1 -run "$RUN" . >/tmp/confirm_demo2.log 2>&1) || D2=FAILS
/verif/tools/reset_audit.sh >/dev/null 2>&1
echo "CONFIRM build=$B1 build_verif=$B2 suite_with_change=$S demo_with_change=$D1 demo_without_change=$D2"
[ "$B1$B2$S$D1$D2" = "okokokfailspasses" ]
