#!/usr/bin/env python3
"""run_seeded.py [--tier quick] [ids...] — the seeded-change matrix.

For every /verif/seeded/<id>/ (or the ids given): apply patch.diff to a scratch worktree of
/repo's HEAD, run the checks listed under caught_by against that tree (VERIF_REPO, with
evidence and replays redirected to a scratch directory), and report whether each raised a
VIOLATION.  /repo itself and /verif/evidence are not touched."""
import json
import os
import shutil
import subprocess
import sys
import tempfile

V = os.path.dirname(os.path.dirname(os.path.abspath(__file__)))


def main():
    args = sys.argv[1:]
    tier = "quick"
    if args[:1] == ["--tier"]:
        tier, args = args[1], args[2:]
    ids = args or sorted(os.listdir(os.path.join(V, "seeded")))
    wt = tempfile.mkdtemp(prefix="seedwt-")
    out = tempfile.mkdtemp(prefix="seedout-")
    os.rmdir(wt)
    subprocess.check_call(["git", "-C", "/repo", "worktree", "add", "-q", "--detach", wt, "HEAD"])
    missed = 0
    try:
        for sid in ids:
            d = os.path.join(V, "seeded", sid)
            meta = json.load(open(os.path.join(d, "meta.json")))
            subprocess.check_call(["git", "-C", wt, "checkout", "-q", "--", "."])
            ap = subprocess.run(["git", "-C", wt, "apply", os.path.join(d, "patch.diff")], stderr=subprocess.PIPE, text=True)
            if ap.returncode != 0:
                print("%-8s PATCH-DOES-NOT-APPLY %s" % (sid, ap.stderr.strip()[:120]))
                missed += 1
                continue
            for prop in meta["caught_by"]:
                env = dict(os.environ, VERIF_REPO=wt, VERIF_OUT_DIR=out)
                p = subprocess.run([os.path.join(V, "check"), prop, "--tier", tier], cwd=V, env=env,
                                   stdout=subprocess.PIPE, stderr=subprocess.STDOUT, text=True)
                viol = [l for l in p.stdout.splitlines() if l.startswith("VIOLATION")]
                reason = next((l.strip()[:150] for l in p.stdout.splitlines() if "reason:" in l), "")
                ok = p.returncode == 1 and viol
                print("%-8s %-4s %s exit=%d %s" % (sid, prop, "CAUGHT" if ok else "MISSED", p.returncode, reason), flush=True)
                if not ok:
                    missed += 1
    finally:
        subprocess.call(["git", "-C", "/repo", "worktree", "remove", "--force", wt])
        shutil.rmtree(out, True)
    print("seeded matrix: %d not caught" % missed)
    return 1 if missed else 0


if __name__ == "__main__":
    sys.exit(main())
