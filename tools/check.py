#!/usr/bin/env python3
"""./check <Cxx> [--tier quick|thorough] [--replay path] | setup | selftest"""
import argparse
import json
import os
import sys
import traceback

sys.path.insert(0, os.path.dirname(os.path.abspath(__file__)))
from vf import core  # noqa: E402

FAMILIES = {
    "C01": "fam_rs", "C02": "fam_rs", "C03": "fam_rs", "C10": "fam_rs", "C19": "fam_rs",
    "C11": "fam_rsconc",
    "C08": "fam_client", "C16": "fam_client", "C17": "fam_client", "C18": "fam_netlink",
    "C06": "fam_rule", "C07": "fam_rule", "C13": "fam_rule", "C14": "fam_rule",
    "C04": "fam_parse", "C05": "fam_parse", "C12": "fam_parse",
    "C09": "fam_coalesce", "C15": "fam_coalesce",
    "C20": "fam_tables",
}


def main():
    ap = argparse.ArgumentParser()
    ap.add_argument("what")
    ap.add_argument("--tier", default=os.environ.get("VERIF_TIER", "quick"), choices=["quick", "thorough"])
    ap.add_argument("--replay")
    a = ap.parse_args()
    seed = int(os.environ.get("VERIF_SEED", "1") or "1")

    if a.what == "setup":
        from vf import setup
        return setup.run()
    if a.what == "extras":
        from vf import extras
        return extras.run(a.tier, seed, os.environ.get("VERIF_EXTRA") or None)
    if a.what == "selftest":
        from vf import selftest
        return selftest.run(a.tier, seed)
    if a.what not in FAMILIES:
        print("unknown property %s" % a.what, file=sys.stderr)
        return 2
    mod = __import__("vf." + FAMILIES[a.what], fromlist=["x"])
    ctx = core.Ctx(a.what, a.tier, seed)
    try:
        if a.replay:
            payload = json.load(open(a.replay))
            payload["_path"] = a.replay
            return mod.replay(ctx, payload)
        return mod.run(ctx)
    except core.Broken as e:
        print("CHECK-BROKEN property=%s: %s" % (a.what, e), file=sys.stderr)
        return 2
    except Exception:
        traceback.print_exc()
        print("CHECK-BROKEN property=%s: internal error" % a.what, file=sys.stderr)
        return 2


if __name__ == "__main__":
    sys.exit(main())
