#!/usr/bin/env python3
"""gen_seed_prompts.py <out dir (e.g. /tmp/mut)> <variant letter> <property id>... - writes one prompt file per
property for an independent sub-agent that is to seed a property-breaking change (section 12 of DESIGN.md).
The prompt carries the property's text and one-line summaries of the kinds of change that already exist
under seeded/ for it - nothing else from /verif."""
import glob, json, os, sys
out, k, pids = sys.argv[1], sys.argv[2], sys.argv[3:]
V = os.path.dirname(os.path.dirname(os.path.abspath(__file__)))
props = {json.loads(l)['id']: json.loads(l) for l in open(os.path.join(V, 'properties.jsonl'))}
kinds = {}
for f in sorted(glob.glob(os.path.join(V, 'seeded/*/meta.json'))):
    m = json.load(open(f)); kinds.setdefault(m['property'], []).append((m.get('summary') or '').split('. ')[0][:300])
for pid in pids:
    p = props[pid]; wt = f'{out}/wt-{pid}{k}'; od = f'{out}/out-{pid}{k}'; os.makedirs(od, exist_ok=True)
    txt = f"""You are helping to evaluate a verification framework for the Go library elastic/go-libaudit by writing ONE realistic, subtle regression ("seeded change") that breaks a stated semantic property of the library while still compiling and passing the library's whole existing test suite.

Work ONLY inside your own scratch git worktree. Create it first:
    git -C /repo worktree add --detach {wt} HEAD
Never edit, stage or commit anything in /repo itself, and do not read or touch /verif at all (it is off limits - your work must be independent of it). Do all edits, builds and test runs in {wt}. Shell setup for every command: export GOFLAGS=-mod=mod GOPROXY=off GOSUMDB=off GOTOOLCHAIN=local (no network is available). NEVER use `git stash` (the stash is shared between all worktrees and other agents work in parallel): to test without your change use `git diff > /tmp/mut/{pid}{k}.diff; git checkout -- .; ...; git apply /tmp/mut/{pid}{k}.diff`.

The property (JSON):
{json.dumps({x: p[x] for x in ('id', 'title', 'statement', 'quantifier', 'why_tests_cant', 'anchors')}, indent=1)}

Changes of the following kinds ALREADY EXIST for this property - yours must be of a different kind (a different code site and/or a different failure mode), and harder to notice:
""" + "\n".join(f"  - {s}" for s in kinds.get(pid, [])) + f"""

What to deliver: a change to the library's non-test source (any package; not to tests, testdata or golden files) such that
  1. `go build ./...` and `go build -tags verif ./...` both succeed;
  2. the complete existing test suite still passes with the change: `go test -vet=off -count=1 ./...` in {wt} (run it; IMPORTANT: straight after every run of the root package's tests run `/tmp/mut/reset_audit` - the suite leaves the live kernel's audit failure mode at "panic" otherwise; the root package's tests talk to the live kernel, so if they fail in a way unrelated to your change, another agent may be running them at the same moment: run them again);
  3. the property is really broken: it needs something specific to manifest - a particular interleaving, a multi-step sequence of operations, an unusual but legal input or configuration, a data-type boundary, a rarely taken branch, or two cooperating code sites that each look fine alone - NOT something ordinary use would expose at once. It should look like a plausible refactoring, optimisation or "fix" a maintainer might write, not like sabotage (no magic constants keyed to a test, no random behaviour, no checks for special values that only a demo would use);
  4. a demonstration: one Go test file `demo_test.go` (package of the directory it is to be placed in; give the test function(s) a unique name beginning `TestSeeded{pid}{k.upper()}`) that FAILS with your change and PASSES on the unchanged tree, using only the library's public API (or package-internal API if placed inside the package) and the standard library. If it needs the race detector or `-tags verif` say so.
Prefer a change AWAY from the most obvious site: a helper, a constructor, an interaction with another feature, a configuration extreme, or a second code path that reaches the same state.

When done, write these files into {od}/ :
  - patch.diff : `git -C {wt} diff` of your change ONLY (without the demo file; make sure the demo file is not in the diff),
  - demo_test.go : the demonstration,
  - meta.json : {{"property": "{pid}", "summary": "<what the change does, file and function>", "needs": "<what it needs in order to manifest>", "files": ["..."], "demo_pkg_dir": "<directory relative to the repo root into which demo_test.go must be copied, e.g. . or auparse>", "demo_run": "<-run regex>", "demo_flags": "<extra go test flags or empty>"}}
Verify yourself, in the worktree: suite passes with the change; the demo fails with the change; with the change reverted the demo passes. Finally remove your worktree: `git -C /repo worktree remove --force {wt}`. Your final answer should be a 3-line summary (what, needs, verified how); also mention, as a side remark, any place where you noticed that the UNCHANGED library already seems to violate the property.
"""
    open(f'{out}/prompt-{pid}{k}.txt', 'w').write(txt)
    print(f'{out}/prompt-{pid}{k}.txt')
