---------------------------- MODULE ParseMonitor ----------------------------
(* Per-record oracles of the parser family.                                 *)
(*   "header"    C04  the parsed header equals the header that was written  *)
(*   "badheader" C04  a malformed header yields an error and no message     *)
(*   "field"     C12  Data() recovers what the kernel encoded               *)
(*   "ptotal"    C05  no panic, no hang, repeated calls agree               *)
EXTENDS Integers, Sequences, FiniteSets, TLC, Bytes, AuditRecord, UAPI

PFlag(p, w) == [prop |-> p, why |-> w]

\* ---- C04 ---------------------------------------------------------------------------
\* o: [type, name, sec, ms, seq, body, line, libname, ts_want,
\*     pl: [ok, type, sec, ms, seq, raw], p: [...same...], map: [record_type, timestamp, sequence, raw_msg, err]]
ResultOk(o, res, via) ==
    LET raw == RawAfterMsg(o.sec, o.ms, o.seq, o.body) IN
    IF ~res.ok THEN << PFlag("C04", via \o " rejected a well-formed header") >>
    ELSE (IF res.type # o.type THEN << PFlag("C04", via \o ": RecordType differs from the type written") >> ELSE << >>)
      \o (IF res.sec # o.sec \/ res.ms # o.ms THEN << PFlag("C04", via \o ": Timestamp differs from the seconds.milliseconds written") >> ELSE << >>)
      \o (IF res.seq # o.seq THEN << PFlag("C04", via \o ": Sequence differs from the number written") >> ELSE << >>)
      \o (IF res.raw # raw THEN << PFlag("C04", via \o ": RawData is not the trimmed text after msg=") >> ELSE << >>)

JudgeHeader(o) ==
    IF o.panic THEN << PFlag("C05", "parser panicked on a well-formed line") >>
    ELSE IF o.line # HeaderLine(o.name, o.sec, o.ms, o.seq, o.body) THEN << PFlag("C04", "harness error: the line is not the header it claims") >>
    ELSE ResultOk(o, o.pl, "ParseLogLine") \o ResultOk(o, o.p, "Parse")
      \o (IF o.pl.ok /\ o.p.ok THEN
            (IF o.map.sequence # AsciiDigits(o.seq) THEN << PFlag("C04", "ToMapStr sequence is not the header's") >> ELSE << >>)
            \o (IF o.map.raw_msg # RawAfterMsg(o.sec, o.ms, o.seq, o.body) THEN << PFlag("C04", "ToMapStr raw_msg is not the header's message") >> ELSE << >>)
            \o (IF o.map.record_type # o.libname THEN << PFlag("C04", "ToMapStr record_type is not the header's type") >> ELSE << >>)
            \o (IF o.map.timestamp # o.ts_want THEN << PFlag("C04", "ToMapStr @timestamp is not the header's time (UTC)") >> ELSE << >>)
            \* "always": also on a later call, whatever the caller did with the map an earlier call handed out
            \o (IF o.map2.sequence # AsciiDigits(o.seq) \/ o.map2.raw_msg # RawAfterMsg(o.sec, o.ms, o.seq, o.body)
                   \/ o.map2.record_type # o.libname \/ o.map2.timestamp # o.ts_want
                THEN << PFlag("C04", "a later ToMapStr call does not report the header (after the caller changed the map an earlier call returned)") >> ELSE << >>)
          ELSE << >>)

\* o: [line, how, pl_ok, pl_nil, p_ok, p_nil, panic]
JudgeBadHeader(o) ==
    IF o.panic THEN << PFlag("C05", "parser panicked on a malformed header"),
                       PFlag("C04", "a malformed header yielded a panic, not an error (" \o o.how \o ")") >>
    ELSE IF o.how \in {"cut", "typename"} THEN
        \* a run of bytes cut out of the 'type=T msg=' prefix, or a type name around the UNKNOWN[n] form: what
        \* is left may still be a header the parser takes (the statement fixes no grammar of type names); the
        \* demand is an error and no message, or a message and no error - and no panic
        (IF o.pl_ok = o.pl_nil THEN << PFlag("C04", "ParseLogLine returned a message together with an error, or neither") >> ELSE << >>)
    ELSE (IF o.pl_ok \/ ~o.pl_nil THEN << PFlag("C04", "ParseLogLine accepted a malformed header (" \o o.how \o ")") >> ELSE << >>)
      \o (IF o.p_ok \/ ~o.p_nil THEN << PFlag("C04", "Parse accepted a malformed header (" \o o.how \o ")") >> ELSE << >>)

\* ---- C12 ----------------------------------------------------------------------------------
\* o: [how, rtype, key, orig, enc, present, got, want, err]
\*   how = "untrusted": enc must be EncodeUntrusted(orig) and the field decodes to orig
\*         "proctitle": same encoding, NULs shown as spaces
\*         "execve":    same encoding, argument cut at a NUL
\*         "plain":     a bare key=value token stays as it is
\*         "dropped":   a placeholder value disappears
\*         "derived":   want is the value fixed by the rule named in o.rule
\*         "saddr":     hex of struct sockaddr; want holds the expected family / address bytes / port / path
JudgeField(o) ==
    IF o.panic THEN << PFlag("C05", "Data panicked") >>
    ELSE IF o.how \in {"untrusted", "proctitle", "execve"} THEN
        IF o.enc # EncodeUntrusted(o.orig) THEN << PFlag("C12", "harness error: value not written the way the kernel writes it") >>
        ELSE LET want == IF o.how = "proctitle" THEN NulToSpace(o.orig)
                         ELSE IF o.how = "execve" THEN UpToNul(o.orig) ELSE o.orig
             IN  IF ~o.present THEN << PFlag("C12", "field " \o o.key \o " is missing from Data although the record carries it") >>
                 ELSE IF o.got # want THEN << PFlag("C12", "Data does not return the original value of " \o o.key) >>
                 ELSE << >>
    ELSE IF o.how = "plain" THEN
        IF ~o.present \/ o.got # o.orig THEN << PFlag("C12", "a plain key=value field was changed or lost") >> ELSE << >>
    ELSE IF o.how = "dropped" THEN
        IF o.present THEN << PFlag("C12", "a placeholder value was kept") >> ELSE << >>
    ELSE IF o.how = "kept" THEN
        IF ~o.present THEN << PFlag("C12", "a value that is not one of the four placeholders was dropped") >> ELSE << >>
    ELSE IF o.how = "derived" THEN
        IF ~o.present \/ o.got # o.want THEN << PFlag("C12", "derived field rule broken: " \o o.rule) >> ELSE << >>
    ELSE IF o.how = "errno" THEN
        \* negative exit code -> a name of that errno's alias class
        IF ~o.present \/ o.gotname \notin ErrnoNames(o.errno) THEN << PFlag("C12", "negative exit code does not become the errno's name") >> ELSE << >>
    ELSE IF o.how = "arch" THEN
        IF ~o.present \/ o.gotname # ArchName(o.arch) THEN << PFlag("C12", "arch value does not become the architecture's name") >> ELSE << >>
    ELSE IF o.how = "uapi_syscall" THEN
        \* independent of the library's tables: where the kernel's syscall table (UAPI.tla) is transcribed,
        \* the number must become that name
        IF NamesOfNr(o.archname, o.nr) # {} /\ (~o.present \/ o.gotname \notin NamesOfNr(o.archname, o.nr))
        THEN << PFlag("C12", "syscall number does not become the name the kernel's table gives it") >> ELSE << >>
    ELSE IF o.how = "xtags" THEN
        \* beyond the listed properties: the rule keys the kernel logs (joined by 0x01, hex when there are
        \* several) come back as Tags()
        IF o.enc # EncodeUntrusted(o.joined) THEN << PFlag("PARSE-X", "harness error: key not written the way the kernel writes it") >>
        ELSE IF o.tags # o.keys THEN << PFlag("PARSE-X", "Tags() are not the keys of the rule that produced the record") >>
        ELSE << >>
    ELSE IF o.how = "xderived" THEN
        IF ~o.present \/ o.got # o.want THEN << PFlag("PARSE-X", "record-format rule broken: " \o o.rule) >> ELSE << >>
    ELSE IF o.how = "saddr" THEN
        (IF o.family # o.want_family THEN << PFlag("C12", "socket address family decoded wrongly") >> ELSE << >>)
        \o (IF o.want_family \in {"ipv4", "ipv6"} /\ (o.addr_bytes # o.want_addr \/ o.port # o.want_port)
            THEN << PFlag("C12", "socket address or port decoded wrongly") >> ELSE << >>)
        \o (IF o.want_family = "unix" /\ o.path # UpToNul(o.want_path) THEN << PFlag("C12", "unix socket path decoded wrongly") >> ELSE << >>)
        \o (IF o.enc # HexOfBytes(o.raw) THEN << PFlag("C12", "harness error: saddr not written as upper-case hex of the struct") >> ELSE << >>)
    ELSE << >>

\* ---- C05 -------------------------------------------------------------------------------------
\* o: [ret ("ok" | "err" | "panic" | "hang"), same]
JudgeTotal(o) ==
    (IF o.ret \in {"panic", "hang", "crash"} THEN << PFlag("C05", "the parser did not return (" \o o.ret \o ") on " \o o.shape) >> ELSE << >>)
    \o (IF o.ret = "ok" /\ ~o.same THEN << PFlag("C05", "repeated Data/Tags/ToMapStr calls on one message disagree (" \o o.shape \o ")") >> ELSE << >>)

Judge(o) ==
    IF o.k = "header" THEN JudgeHeader(o)
    ELSE IF o.k = "badheader" THEN JudgeBadHeader(o)
    ELSE IF o.k = "field" THEN JudgeField(o)
    ELSE IF o.k = "ptotal" THEN JudgeTotal(o)
    ELSE << >>
=============================================================================
