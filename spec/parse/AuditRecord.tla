----------------------------- MODULE AuditRecord -----------------------------
(* How the kernel and auditd write audit records, as executable             *)
(* definitions: the log-line header, the encoding of untrusted strings      *)
(* (kernel/audit.c: audit_log_untrustedstring), struct sockaddr as hex, and *)
(* the fixed rules for derived fields.  Strings are byte sequences.         *)
EXTENDS Integers, Sequences, FiniteSets, TLC, Bytes

Str(s) == s      \* documentation only: s is already a byte sequence

\* ---- ASCII fragments ------------------------------------------------------------
TypeEq   == << 116, 121, 112, 101, 61 >>                       \* "type="
MsgAudit == << 32, 109, 115, 103, 61, 97, 117, 100, 105, 116, 40 >>   \* " msg=audit("
CloseColonSpace == << 41, 58, 32 >>                            \* "): "

Ms3(ms) == << 48 + (ms \div 100), 48 + ((ms \div 10) % 10), 48 + (ms % 10) >>

\* type=NAME msg=audit(SECONDS.mmm:SEQ): body
HeaderLine(name, secDigits, ms, seqDigits, body) ==
    TypeEq \o name \o MsgAudit \o AsciiDigits(secDigits) \o << 46 >> \o Ms3(ms) \o << 58 >> \o AsciiDigits(seqDigits)
    \o CloseColonSpace \o body

\* the text after "msg=", trimmed of surrounding white space
RECURSIVE TrimLeft(_), TrimRight(_)
IsSpace(c) == c \in { 32, 9, 10, 11, 12, 13 }
TrimLeft(s) == IF Len(s) > 0 /\ IsSpace(s[1]) THEN TrimLeft(Tail(s)) ELSE s
TrimRight(s) == IF Len(s) > 0 /\ IsSpace(s[Len(s)]) THEN TrimRight(SubSeq(s, 1, Len(s) - 1)) ELSE s
Trim(s) == TrimRight(TrimLeft(s))

RawAfterMsg(secDigits, ms, seqDigits, body) ==
    Trim(<< 97, 117, 100, 105, 116, 40 >> \o AsciiDigits(secDigits) \o << 46 >> \o Ms3(ms) \o << 58 >> \o AsciiDigits(seqDigits)
         \o CloseColonSpace \o body)

\* "UNKNOWN[n]"
UnknownName(n) == << 85, 78, 75, 78, 79, 87, 78, 91 >> \o AsciiDigits(DigitsOf(n)) \o << 93 >>

\* ---- untrusted strings -------------------------------------------------------------
\* audit_string_contains_control: a byte is unsafe if it is '"', below 0x21 or above 0x7e
Unsafe(c) == c = 34 \/ c < 33 \/ c > 126
NeedsHex(v) == \E i \in 1..Len(v) : Unsafe(v[i])
EncodeUntrusted(v) == IF NeedsHex(v) THEN HexOfBytes(v) ELSE << 34 >> \o v \o << 34 >>

\* ---- what Data() must give back -------------------------------------------------------
\* proctitle: arguments separated by NUL are shown separated by spaces
NulToSpace(v) == [i \in 1..Len(v) |-> IF v[i] = 0 THEN 32 ELSE v[i]]
\* a C string inside a fixed-size field: up to the first NUL
UpToNul(v) == IF \E i \in 1..Len(v) : v[i] = 0
              THEN SubSeq(v, 1, (CHOOSE i \in 1..Len(v) : v[i] = 0 /\ \A j \in 1..(i - 1) : v[j] # 0) - 1)
              ELSE v

\* struct sockaddr as the kernel logs it (hex of the raw bytes, family in host order = little endian)
SockaddrIn(port, ip4) == << 2, 0, port \div 256, port % 256 >> \o ip4 \o Zeros(8)
SockaddrIn6(port, flow4, ip16, scope4) == << 10, 0, port \div 256, port % 256 >> \o flow4 \o ip16 \o scope4
SockaddrUn(path) == << 1, 0 >> \o path

\* ---- errno names (asm-generic/errno-base.h, errno.h); aliases share a number -------------------
\* The aliases are the ones those headers define (EWOULDBLOCK, EDEADLOCK).  ENOTSUP is a C library
\* name for 95 that the kernel's headers do not have (the kernel's own ENOTSUPP is 524), so a record
\* written by the kernel with exit=-95 means EOPNOTSUPP.
ErrnoNames(n) ==
    CASE n = 1 -> {"EPERM"} [] n = 2 -> {"ENOENT"} [] n = 3 -> {"ESRCH"} [] n = 4 -> {"EINTR"} [] n = 5 -> {"EIO"}
      [] n = 6 -> {"ENXIO"} [] n = 7 -> {"E2BIG"} [] n = 8 -> {"ENOEXEC"} [] n = 9 -> {"EBADF"} [] n = 10 -> {"ECHILD"}
      [] n = 11 -> {"EAGAIN", "EWOULDBLOCK"} [] n = 12 -> {"ENOMEM"} [] n = 13 -> {"EACCES"} [] n = 14 -> {"EFAULT"}
      [] n = 15 -> {"ENOTBLK"} [] n = 16 -> {"EBUSY"} [] n = 17 -> {"EEXIST"} [] n = 18 -> {"EXDEV"} [] n = 19 -> {"ENODEV"}
      [] n = 20 -> {"ENOTDIR"} [] n = 21 -> {"EISDIR"} [] n = 22 -> {"EINVAL"} [] n = 23 -> {"ENFILE"} [] n = 24 -> {"EMFILE"}
      [] n = 25 -> {"ENOTTY"} [] n = 26 -> {"ETXTBSY"} [] n = 27 -> {"EFBIG"} [] n = 28 -> {"ENOSPC"} [] n = 29 -> {"ESPIPE"}
      [] n = 30 -> {"EROFS"} [] n = 31 -> {"EMLINK"} [] n = 32 -> {"EPIPE"} [] n = 33 -> {"EDOM"} [] n = 34 -> {"ERANGE"}
      [] n = 35 -> {"EDEADLK", "EDEADLOCK"} [] n = 36 -> {"ENAMETOOLONG"} [] n = 37 -> {"ENOLCK"} [] n = 38 -> {"ENOSYS"}
      [] n = 39 -> {"ENOTEMPTY"} [] n = 40 -> {"ELOOP"} [] n = 42 -> {"ENOMSG"} [] n = 43 -> {"EIDRM"} [] n = 44 -> {"ECHRNG"}
      [] n = 45 -> {"EL2NSYNC"} [] n = 46 -> {"EL3HLT"} [] n = 47 -> {"EL3RST"} [] n = 48 -> {"ELNRNG"} [] n = 49 -> {"EUNATCH"}
      [] n = 50 -> {"ENOCSI"} [] n = 51 -> {"EL2HLT"} [] n = 52 -> {"EBADE"} [] n = 53 -> {"EBADR"} [] n = 54 -> {"EXFULL"}
      [] n = 55 -> {"ENOANO"} [] n = 56 -> {"EBADRQC"} [] n = 57 -> {"EBADSLT"} [] n = 59 -> {"EBFONT"} [] n = 60 -> {"ENOSTR"}
      [] n = 61 -> {"ENODATA"} [] n = 62 -> {"ETIME"} [] n = 63 -> {"ENOSR"} [] n = 64 -> {"ENONET"} [] n = 65 -> {"ENOPKG"}
      [] n = 66 -> {"EREMOTE"} [] n = 67 -> {"ENOLINK"} [] n = 68 -> {"EADV"} [] n = 69 -> {"ESRMNT"} [] n = 70 -> {"ECOMM"}
      [] n = 71 -> {"EPROTO"} [] n = 72 -> {"EMULTIHOP"} [] n = 73 -> {"EDOTDOT"} [] n = 74 -> {"EBADMSG"} [] n = 75 -> {"EOVERFLOW"}
      [] n = 76 -> {"ENOTUNIQ"} [] n = 77 -> {"EBADFD"} [] n = 78 -> {"EREMCHG"} [] n = 79 -> {"ELIBACC"} [] n = 80 -> {"ELIBBAD"}
      [] n = 81 -> {"ELIBSCN"} [] n = 82 -> {"ELIBMAX"} [] n = 83 -> {"ELIBEXEC"} [] n = 84 -> {"EILSEQ"} [] n = 85 -> {"ERESTART"}
      [] n = 86 -> {"ESTRPIPE"} [] n = 87 -> {"EUSERS"} [] n = 88 -> {"ENOTSOCK"} [] n = 89 -> {"EDESTADDRREQ"} [] n = 90 -> {"EMSGSIZE"}
      [] n = 91 -> {"EPROTOTYPE"} [] n = 92 -> {"ENOPROTOOPT"} [] n = 93 -> {"EPROTONOSUPPORT"} [] n = 94 -> {"ESOCKTNOSUPPORT"}
      [] n = 95 -> {"EOPNOTSUPP"} [] n = 96 -> {"EPFNOSUPPORT"} [] n = 97 -> {"EAFNOSUPPORT"} [] n = 98 -> {"EADDRINUSE"}
      [] n = 99 -> {"EADDRNOTAVAIL"} [] n = 100 -> {"ENETDOWN"} [] n = 101 -> {"ENETUNREACH"} [] n = 102 -> {"ENETRESET"}
      [] n = 103 -> {"ECONNABORTED"} [] n = 104 -> {"ECONNRESET"} [] n = 105 -> {"ENOBUFS"} [] n = 106 -> {"EISCONN"}
      [] n = 107 -> {"ENOTCONN"} [] n = 108 -> {"ESHUTDOWN"} [] n = 109 -> {"ETOOMANYREFS"} [] n = 110 -> {"ETIMEDOUT"}
      [] n = 111 -> {"ECONNREFUSED"} [] n = 112 -> {"EHOSTDOWN"} [] n = 113 -> {"EHOSTUNREACH"} [] n = 114 -> {"EALREADY"}
      [] n = 115 -> {"EINPROGRESS"} [] n = 116 -> {"ESTALE"} [] n = 117 -> {"EUCLEAN"} [] n = 118 -> {"ENOTNAM"} [] n = 119 -> {"ENAVAIL"}
      [] n = 120 -> {"EISNAM"} [] n = 121 -> {"EREMOTEIO"} [] n = 122 -> {"EDQUOT"} [] n = 123 -> {"ENOMEDIUM"} [] n = 124 -> {"EMEDIUMTYPE"}
      [] n = 125 -> {"ECANCELED"} [] n = 126 -> {"ENOKEY"} [] n = 127 -> {"EKEYEXPIRED"} [] n = 128 -> {"EKEYREVOKED"}
      [] n = 129 -> {"EKEYREJECTED"} [] n = 130 -> {"EOWNERDEAD"} [] n = 131 -> {"ENOTRECOVERABLE"} [] n = 132 -> {"ERFKILL"}
      [] n = 133 -> {"EHWPOISON"}
      [] OTHER -> {}

\* AUDIT_ARCH_* value (as limbs) -> the names under which audit tools know it
ArchName(a) ==
    CASE a = [hi |-> 49152, lo |-> 62]  -> "x86_64"
      [] a = [hi |-> 16384, lo |-> 3]   -> "i386"
      [] a = [hi |-> 49152, lo |-> 183] -> "aarch64"
      [] a = [hi |-> 16384, lo |-> 40]  -> "arm"
      [] a = [hi |-> 0,     lo |-> 20]  -> "ppc"
      [] a = [hi |-> 32768, lo |-> 21]  -> "ppc64"
      [] a = [hi |-> 49152, lo |-> 21]  -> "ppc64le"
      [] a = [hi |-> 0,     lo |-> 22]  -> "s390"
      [] a = [hi |-> 32768, lo |-> 22]  -> "s390x"
      [] OTHER -> ""
=============================================================================
