------------------------------ MODULE ParseCases ------------------------------
(* The input grammar of the parser family, enumerated by TLC: record type   *)
(* (one per enrichment path) x field x value shape, socket addresses by     *)
(* family x length, SELinux contexts by number of parts, AVC forms.  The    *)
(* harness instantiates each descriptor with seeded concrete strings.       *)
EXTENDS Integers, Sequences, FiniteSets, TLC, Json

CONSTANTS Family

VARIABLES c

\* one record type per enrichment path, and a few without one
RecordTypes == { 1300, 1326, 1306, 1309, 1400, 1006, 1302, 1327, 1123, 1319, 1124, 1112, 1104, 1105, 1106, 1307, 1100, 1305, 0, 65535 }

Fields == { "exe", "cwd", "name", "proctitle", "cmd", "data", "acct", "a0", "a1", "argc", "saddr", "subj", "obj", "key",
            "exit", "arch", "syscall", "sig", "auid", "old-auid", "ses", "success", "res", "msg", "items", "hostname", "other" }

Shapes == { "quoted", "hex", "oddhex", "lowerhex", "empty", "quoted_empty", "placeholder", "unbalanced_dq", "unbalanced_sq",
            "single_quoted", "nested_msg", "huge_number", "negative", "long", "binary", "escaped_quote", "equals_inside",
            "missing", "duplicate", "colon_rich", "hex_nul" }

Shape == { [c |-> "shape", rtype |-> t, field |-> f, shape |-> s] : t \in RecordTypes, f \in Fields, s \in Shapes }

\* two fields shaped at once: one that is rewritten early (key, subj, exe) and one whose
\* enrichment fails later, so that partial results and error paths meet
Pair == { [c |-> "pair", rtype |-> t, f1 |-> a, s1 |-> x, f2 |-> b, s2 |-> y] :
            t \in { 1300, 1326, 1306, 1309 }, a \in { "key", "subj", "exe" }, x \in { "hex", "quoted", "colon_rich", "hex_nul" },
            b \in { "syscall", "arch", "argc", "saddr", "exit", "sig", "a0" }, y \in { "placeholder", "oddhex", "huge_number", "missing", "empty" } }

Saddr == { [c |-> "saddr", family |-> fam, hexlen |-> n] : fam \in { 0, 1, 2, 10, 16, 17, 255, 65535 }, n \in 0..64 }

Selinux == { [c |-> "selinux", rtype |-> t, field |-> f, parts |-> n] : t \in { 1300, 1302, 1400, 1100 }, f \in { "subj", "obj" }, n \in 0..8 }

Avc == { [c |-> "avc", form |-> f, rtype |-> t] :
           f \in { "selinux", "no_braces", "empty_braces", "open_brace", "apparmor", "many_perms", "for_missing", "nested_braces",
                   "no_perms", "only_prefix", "braces_at_end", "double_for" },
           t \in { 1400, 1107, 1300 } }

Execve == { [c |-> "execve", argc |-> n, present |-> p, enc |-> e] :
              n \in { "0", "1", "2", "3", "10", "4294967295", "4294967296", "-1", "x" }, p \in { 0, 1, 2, 3 }, e \in { "quoted", "hex", "mixed", "bad" } }

Header == { [c |-> "header", how |-> h] :
              h \in { "ok", "no_paren", "no_dot", "no_colon", "no_close", "alpha_sec", "alpha_ms", "alpha_seq", "empty_sec", "empty_seq",
                      "seq_overflow", "neg_seq", "huge_sec", "no_msg", "no_type", "unknown_type", "unknown_bracket", "spaces", "only_header" } }

\* the three numbers of the header, each written with 0..24 digits: zeros, nines, a small value behind
\* leading zeros, a one ahead of zeros, a sign; the other two numbers stay ordinary
HdrNum == { [c |-> "hdrnum", field |-> f, len |-> n, fill |-> x] :
              f \in { "sec", "ms", "seq" }, n \in 0..24, x \in { "zeros", "nines", "lead0", "one0", "plus", "minus" } }

All == (IF "shape" \in Family THEN Shape ELSE {}) \cup (IF "pair" \in Family THEN Pair ELSE {}) \cup (IF "saddr" \in Family THEN Saddr ELSE {})
       \cup (IF "selinux" \in Family THEN Selinux ELSE {}) \cup (IF "avc" \in Family THEN Avc ELSE {})
       \cup (IF "execve" \in Family THEN Execve ELSE {}) \cup (IF "header" \in Family THEN Header \cup HdrNum ELSE {})

Init == c \in All
Next == UNCHANGED c
Spec == Init /\ [][Next]_c
Emit == PrintT("CASE " \o ToJson(c))
=============================================================================
