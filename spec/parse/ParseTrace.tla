------------------------------ MODULE ParseTrace ------------------------------
EXTENDS Integers, Sequences, TLC, Json, IOUtils

PM == INSTANCE ParseMonitor

Trace == ndJsonDeserialize(IOEnv.TRACE_FILE)

VARIABLES l
vars == << l >>
Init == l = 1 /\ TLCSet(1, 1)

Report(fl, line, r) ==
    \A i \in 1..Len(fl) :
        PrintT("FLAG " \o ToJson([prop |-> fl[i].prop, why |-> fl[i].why, line |-> line,
                                  trace |-> IF "trace" \in DOMAIN r THEN r.trace ELSE 0]))

Next ==
    /\ l <= Len(Trace)
    /\ Report(PM!Judge(Trace[l]), l, Trace[l])
    /\ l' = l + 1
    /\ TLCSet(1, l + 1)

Spec == Init /\ [][Next]_vars
AllConsumed == TLCGet(1) = Len(Trace) + 1
=============================================================================
