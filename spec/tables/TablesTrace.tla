----------------------------- MODULE TablesTrace -----------------------------
EXTENDS Integers, Sequences, TLC, Json, IOUtils

T == INSTANCE Tables

Trace == ndJsonDeserialize(IOEnv.TRACE_FILE)

VARIABLES l, mon
vars == << l, mon >>

Init == l = 1 /\ mon = T!TInit /\ TLCSet(1, 1)

Report(fl, line, r) ==
    \A i \in 1..Len(fl) :
        PrintT("FLAG " \o ToJson([prop |-> fl[i].prop, why |-> fl[i].why, line |-> line,
                                  trace |-> IF "trace" \in DOMAIN r THEN r.trace ELSE 0]))

Next ==
    /\ l <= Len(Trace)
    /\ mon' = T!TStep(mon, Trace[l])
    /\ Report(mon'.flags, l, Trace[l])
    /\ l' = l + 1
    /\ TLCSet(1, l + 1)

Spec == Init /\ [][Next]_vars
AllConsumed == TLCGet(1) = Len(Trace) + 1
=============================================================================
