------------------------------- MODULE Tables -------------------------------
(* C20: whole-table invariants over the library's name/number tables,       *)
(* evaluated by TLC over a complete dump (one record per table entry).      *)
(* The monitor accumulates the maps it needs and judges each record as it   *)
(* arrives; cross-table clauses are judged at the "end" record.             *)
EXTENDS Integers, Sequences, FiniteSets, TLC

Flag(w) == [prop |-> "C20", why |-> w]
EmptyFn == [x \in {} |-> 0]
PutFn(f, k, v) == [x \in DOMAIN f \cup {k} |-> IF x = k THEN v ELSE f[x]]

TInit ==
    [ errFwd |-> EmptyFn,      \* errno name -> number
      errRev |-> EmptyFn,      \* errno number -> name
      archByName |-> EmptyFn,  \* arch name -> << hi, lo >>
      archCodes |-> {},        \* << hi, lo >> seen
      scNames |-> {},          \* << arch, name >> seen in a syscall table
      scAny |-> {},            \* every syscall name of every table
      typeNames |-> {},        \* every name some record type prints as (known types only)
      normSyscalls |-> {},     \* syscalls already claimed by a normalisation
      normPlainTypes |-> {},   \* record types with an unqualified normalisation
      flags |-> << >> ]

TStep(m0, r) ==
    LET m == [m0 EXCEPT !.flags = << >>] IN
    IF r.k = "type" THEN
        \* number -> name -> number, text marshalling, categorisation stable across calls
        [m EXCEPT !.flags =
             (IF r.back # r.code THEN << Flag("record type does not convert to a name and back to the same number") >> ELSE << >>)
             \o (IF r.text_back # r.code THEN << Flag("record type does not survive MarshalText / UnmarshalText") >> ELSE << >>)
             \o (IF \E i \in 1..Len(r.cats) : r.cats[i] # r.cats[1] THEN << Flag("record type is categorised differently on different calls") >> ELSE << >>),
                  !.typeNames = IF r.known THEN @ \cup {r.name} ELSE @]
    ELSE IF r.k = "errno_fwd" THEN
        [m EXCEPT !.errFwd = PutFn(@, r.name, r.num)]
    ELSE IF r.k = "errno_rev" THEN
        [m EXCEPT !.errRev = PutFn(@, r.num, r.name)]
    ELSE IF r.k = "arch" THEN
        [m EXCEPT !.flags =
             (IF r.name \in DOMAIN m.archByName THEN << Flag("architecture name is listed for two codes") >> ELSE << >>)
             \o (IF << r.code.hi, r.code.lo >> \in m.archCodes THEN << Flag("architecture code is listed twice") >> ELSE << >>)
             \o (IF ~r.rule_ok THEN << Flag("architecture name is not accepted by the rule encoder") >>
                 ELSE IF r.rule_code # r.code THEN << Flag("architecture name resolves to a different code in the rule encoder") >>
                 ELSE IF ~r.rule_back_ok THEN << Flag("architecture code is not printed back by the rule decoder") >>
                 ELSE IF r.rule_back # r.name /\ r.rule_back \notin {"b64", "b32"} THEN << Flag("architecture code prints back as a different name") >>
                 ELSE << >>),
                  !.archByName = PutFn(@, r.name, << r.code.hi, r.code.lo >>),
                  !.archCodes = @ \cup {<< r.code.hi, r.code.lo >>}]
    ELSE IF r.k = "syscall" THEN
        [m EXCEPT !.flags = IF << r.arch, r.name >> \in m.scNames
                            THEN << Flag("a syscall name maps to two numbers in one architecture's table") >> ELSE << >>,
                  !.scNames = @ \cup {<< r.arch, r.name >>},
                  !.scAny = @ \cup {r.name}]
    ELSE IF r.k = "roundtrip" THEN
        \* a rule field / operator / comparison name through Build and ToCommandLine
        [m EXCEPT !.flags = IF ~r.ok THEN << Flag("rule table entry does not survive encode and decode: " \o r.what) >> ELSE << >>]
    ELSE IF r.k = "norm" THEN
        LET dupSc == { r.syscalls[i] : i \in 1..Len(r.syscalls) } \cap m.normSyscalls
            plain == r.has_fields = 0
            dupRt == IF plain THEN { r.record_types[i] : i \in 1..Len(r.record_types) } \cap m.normPlainTypes ELSE {}
            unkRt == SelectSeq(r.record_types, LAMBDA x : x \notin m.typeNames)
            \* "*" is the catch-all entry, not a syscall name
            unkSc == SelectSeq(r.syscalls, LAMBDA x : x # "*" /\ x \notin m.scAny)
        IN  [m EXCEPT !.flags =
                 (IF dupSc # {} THEN << Flag("a syscall selects two normalisations") >> ELSE << >>)
                 \o (IF dupRt # {} THEN << Flag("a record type has two unqualified normalisations") >> ELSE << >>)
                 \o [i \in 1..Len(unkRt) |-> Flag("normalisation names a record type the parser cannot produce: " \o unkRt[i])]
                 \o [i \in 1..Len(unkSc) |-> Flag("normalisation names a syscall that is in no architecture's table: " \o unkSc[i])],
                      !.normSyscalls = @ \cup { r.syscalls[i] : i \in 1..Len(r.syscalls) },
                      !.normPlainTypes = IF plain THEN @ \cup { r.record_types[i] : i \in 1..Len(r.record_types) } ELSE @]
    ELSE IF r.k = "typename" THEN
        \* from the name side: a name the table lists resolves to a number, and that number prints as a name
        \* (the same one, or an alias that resolves to the same number) - never as UNKNOWN[n]
        [m EXCEPT !.flags = IF r.code < 0 THEN << Flag("a record type name of the table does not resolve to a number: " \o r.name) >>
                            ELSE IF r.again_is_unknown_form \/ r.again_code # r.code
                            THEN << Flag("a record type that has a name does not print as one that maps back to it: " \o r.name) >>
                            ELSE << >>]
    ELSE IF r.k = "select" THEN
        \* one event, coalesced at some point of a long, reordered run: the entry it selects (seen as its action)
        \* is the table's, whatever was coalesced before
        [m EXCEPT !.flags = IF r.got # r.want
                            THEN << Flag("an event selects a normalisation other than the table's for its record type / syscall and fields (" \o r.what \o ")") >>
                            ELSE << >>]
    ELSE IF r.k = "norm_load" THEN
        [m EXCEPT !.flags = IF ~r.ok THEN << Flag("the embedded normalisation file does not load") >> ELSE << >>]
    ELSE IF r.k = "end" THEN
        \* errno: every number maps to a name that maps back to it; every name (aliases included) resolves to a listed number
        LET badRev == { n \in DOMAIN m.errRev : m.errRev[n] \notin DOMAIN m.errFwd \/ m.errFwd[m.errRev[n]] # n }
            badFwd == { s \in DOMAIN m.errFwd : m.errFwd[s] \notin DOMAIN m.errRev }
        IN  [m EXCEPT !.flags =
                 (IF badRev # {} THEN << Flag("an errno number maps to a name that does not map back to it") >> ELSE << >>)
                 \o (IF badFwd # {} THEN << Flag("an errno name resolves to a number that has no name") >> ELSE << >>)]
    ELSE m
=============================================================================
