---------------------------- MODULE MC_ConcView ----------------------------
(* ReassemblerConc || C11 monitor for larger program sets: the monitor's    *)
(* (order-insensitive) state is carried as a variable and the interleaved   *)
(* observation and the schedule are hidden by a VIEW, so that interleavings *)
(* that reach the same shared state and the same monitor state merge.       *)
(* Used for 3 goroutines x 2 operations and 2 x 3, which are out of reach   *)
(* when every path is a distinct state (MC_Conc).  No behaviours are dumped *)
(* here: these runs check the design, MC_Conc's are the ones replayed.      *)
EXTENDS ReassemblerConc

CONSTANTS Offs, Types, MaxLen, NestedKinds

VARIABLES cm, bad

CM == INSTANCE ConcMonitor

Ops == { [op |-> "push", off |-> o, type |-> t] : o \in Offs, t \in Types }
       \cup { [op |-> "maintain", off |-> 0, type |-> 0], [op |-> "close", off |-> 0, type |-> 0] }
Programs == UNION { [1..n -> Ops] : n \in 1..MaxLen }
NestedOps ==
    {NoOp}
    \cup (IF "maintain" \in NestedKinds THEN { [op |-> "maintain", off |-> 0, type |-> 0] } ELSE {})
    \cup (IF "close" \in NestedKinds THEN { [op |-> "close", off |-> 0, type |-> 0] } ELSE {})

\* any rank breaks the symmetry between goroutines soundly (sort by it); small numbers keep TLC's 32-bit integers from overflowing
OpRank(o) == IF o.op = "push" THEN 7 * (o.off % 4) + (o.type % 7) ELSE IF o.op = "maintain" THEN 30 ELSE 31
RECURSIVE ProgRank(_)
ProgRank(p) == IF Len(p) = 0 THEN 0 ELSE OpRank(Head(p)) + 32 * ProgRank(Tail(p))

RECURSIVE Feed(_, _, _, _)
\* run the monitor over the observations appended by one step: returns [m, bad]
Feed(m, os, i, b) ==
    IF i > Len(os) THEN [m |-> m, bad |-> b]
    ELSE LET m1 == CM!CStep(m, os[i]) IN Feed(m1, os, i + 1, b \/ Len(m1.flags) > 0)

VInit ==
    /\ InitWith(Programs, NestedOps)
    /\ \A g, h \in G : g < h => ProgRank(prog[g]) <= ProgRank(prog[h])
    /\ cm = CM!CInit /\ bad = FALSE

VNext ==
    \/ /\ \E g \in G : Step(g)
       /\ LET f == Feed(cm, obs', Len(obs) + 1, bad) IN cm' = [f.m EXCEPT !.flags = << >>] /\ bad' = f.bad
    \/ (AllDone /\ UNCHANGED << vars, cm, bad >>)

VSpec == VInit /\ [][VNext]_<< vars, cm, bad >>

\* what distinguishes states: the shared and per-goroutine state, and the monitor's sets
View == << buf, order, last, hasLast, closed, prog, re, ip, pc, fr, cm, bad >>

NeverBad == ~bad
EndOk == AllDone => Len(CM!CStep(cm, CM!EndRec(FALSE)).flags) = 0
=============================================================================
