---- MODULE MC_ReassemblerInd ----
(* TLC on the module Apalache proves inductive: the same invariants on the reachable states of small *)
(* instances, with action coverage - a cross-check of the two tools on one text.               *)
EXTENDS ReassemblerInd
Bound == \A o \in Off : pushed[o] <= 2
Spec == Init /\ [][Next]_<<buffered, complete, stale, late, inbuf, pushed, delivered, hasLast, last, first, adv, lost, pc, closed>>
=============================================================================
