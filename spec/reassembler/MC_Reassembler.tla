--------------------------- MODULE MC_Reassembler ---------------------------
(* Model || Monitor for the sequential Reassembler, bounded for TLC.        *)
(* With Dump = TRUE every maximal behaviour (a sequence of predicted call   *)
(* records) is printed as one "BEH <json>" line for the replay harness.     *)
EXTENDS Reassembler, Json

CONSTANTS MaxOps, MaxTicks, Dump,
          TimeoutP1   \* Timeout + 1 (TLC configuration files cannot hold negative numbers)

TimeoutDef == TimeoutP1 - 1

VARIABLES mon, hist, ticks

Mon == INSTANCE ReassemblerMonitor

vars == << mvars, rec, mon, hist, ticks >>

MCInit ==
    /\ Init
    /\ mon = Mon!MonInit([max |-> MaxInFlight, tinf |-> (Timeout = Inf), timeout |-> Timeout])
    /\ hist = << >>
    /\ ticks = 0

Op ==
    \/ \E o \in 0..(Width - 1), t \in Types : Push(o, t) /\ UNCHANGED ticks
    \/ PushNil /\ UNCHANGED ticks
    \/ Maintain /\ UNCHANGED ticks
    \/ Close /\ UNCHANGED ticks
    \/ ticks < MaxTicks /\ Tick /\ ticks' = ticks + 1

MCNext ==
    /\ nops < MaxOps
    /\ Op
    /\ mon' = IF rec'.op = "tick" THEN [mon EXCEPT !.flags = << >>] ELSE Mon!StepCall(mon, rec')
    /\ hist' = IF Dump THEN Append(hist, rec') ELSE hist

MCSpec == MCInit /\ [][MCNext]_vars

\* ---- what TLC checks ------------------------------------------------------
NoFlags == Len(mon.flags) = 0
FlagsOf(p) == SelectSeq(mon.flags, LAMBDA f : f.prop = p)
NoC01 == Len(FlagsOf("C01")) = 0
NoC02 == Len(FlagsOf("C02")) = 0
NoC03 == Len(FlagsOf("C03")) = 0
NoC10 == Len(FlagsOf("C10")) = 0
NoC19 == Len(FlagsOf("C19")) = 0

\* the monitor's reconstruction of the buffer agrees with the model's buffer
MonitorTracksBuffer ==
    /\ { OffsetOf(s) : s \in DOMAIN buf } = DOMAIN mon.und
    /\ \A s \in DOMAIN buf : buf[s].msgs = mon.und[OffsetOf(s)]
    /\ \A s \in DOMAIN buf : buf[s].complete <=> OffsetOf(s) \in mon.comp

\* C10 stated on the model's own state
BoundAfterPush == rec.op = "push" /\ ~closed => Len(order) <= MaxInFlight
HeadNotCompleteAfterPush == rec.op = "push" /\ Len(order) > 0 => ~buf[Head(order)].complete
\* C19 on the model's own state
NothingStaleAfterCall ==
    rec.op \in {"push", "maintain"} /\ rec.ret = "ok" /\ Len(order) > 0 => ~(now > buf[Head(order)].expire)
EmptyAfterClose == rec.op = "close" /\ rec.ret = "ok" => Len(order) = 0

DumpBehaviours == (Dump /\ nops = MaxOps) => PrintT("BEH " \o ToJson(hist))

Terminal == nops = MaxOps
=============================================================================
