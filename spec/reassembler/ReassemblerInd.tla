--------------------------- MODULE ReassemblerInd ---------------------------
(* The eventList of reassembler.go for histories of ANY length, by an       *)
(* inductive invariant that Apalache discharges:                            *)
(*     Init => IndInv            (--init=Init    --inv=IndInv --length=0)   *)
(*     IndInv /\ Next => IndInv' (--init=IndInit --inv=IndInv --length=1)   *)
(*     IndInv => Safety          (--init=IndInit --inv=Safety --length=0)   *)
(* TLC's bounded models (Reassembler.tla, MC_ReassemblerView.tla) stop at   *)
(* 6..14 API calls; here the number of calls is unbounded and the clauses   *)
(* of C01 (conservation), C02 (ascending order but for late arrivals), C03  *)
(* (losses = skipped numbers) and C10 (bound and no complete head after a   *)
(* call) are shown to be preserved by every step.                           *)
(*                                                                          *)
(* Abstractions (each justified elsewhere):                                  *)
(*  - sequence numbers are window offsets 0..K compared as integers: that   *)
(*    the code's comparator and uint32 gap agree with offsets for M = 2^32, *)
(*    W = 2^24-1 is SeqWindowLemma (Apalache);                               *)
(*  - CleanUp/Clear are loops of single evictions (EvictStep) closed by     *)
(*    EndLoop, exactly the code's `for { ...; continue / break }`;           *)
(*  - records are counted per offset, not identified; the clock is the set  *)
(*    `stale` of buffered events whose timeout has passed, which grows by   *)
(*    the action Expire at any moment.                                       *)
EXTENDS Integers, FiniteSets

CONSTANTS
    \* @type: Int;
    K,
    \* @type: Int;
    MaxInFlight,
    \* @type: Str;
    Bug            \* "none" | "SweepBehindHead" (seeded change C02-m4) | "NoAdvanceOnStale" (C03-m4)

VARIABLES
    \* @type: Set(Int);
    buffered,
    \* @type: Set(Int);
    complete,
    \* @type: Set(Int);
    stale,
    \* @type: Set(Int);
    late,
    \* @type: Int -> Int;
    inbuf,
    \* @type: Int -> Int;
    pushed,
    \* @type: Int -> Int;
    delivered,
    \* @type: Bool;
    hasLast,
    \* @type: Int;
    last,
    \* @type: Int;
    first,
    \* @type: Set(Int);
    adv,
    \* @type: Int;
    lost,
    \* @type: Str;
    pc,
    \* @type: Bool;
    closed

Off == 0..K
Kinds == {"plain", "completing", "eoe"}

CInit == K = 5 /\ MaxInFlight \in 0..3 /\ Bug = "none"
CInitSweep == K = 5 /\ MaxInFlight \in 0..3 /\ Bug = "SweepBehindHead"
CInitNoAdv == K = 5 /\ MaxInFlight \in 0..3 /\ Bug = "NoAdvanceOnStale"

Init ==
    /\ buffered = {} /\ complete = {} /\ stale = {} /\ late = {}
    /\ inbuf = [o \in Off |-> 0] /\ pushed = [o \in Off |-> 0] /\ delivered = [o \in Off |-> 0]
    /\ hasLast = FALSE /\ last = 0 /\ first = 0 /\ adv = {} /\ lost = 0
    /\ pc = "idle" /\ closed = FALSE

\* ---- eventList.Put, first half of PushMessage (also after Close: the code buffers then too) ----
Put(o, kind) ==
    /\ pc = "idle"
    /\ pc' = "clean"
    /\ IF kind = "eoe" THEN
            /\ complete' = IF o \in buffered THEN complete \union {o} ELSE complete
            /\ UNCHANGED << buffered, late, inbuf, pushed >>
       ELSE /\ pushed' = [pushed EXCEPT ![o] = @ + 1]
            /\ inbuf' = [inbuf EXCEPT ![o] = @ + 1]
            /\ buffered' = buffered \union {o}
            /\ late' = IF o \notin buffered /\ hasLast /\ o <= last THEN late \union {o} ELSE late
            /\ complete' = IF kind = "completing" THEN complete \union {o} ELSE complete
    /\ UNCHANGED << stale, delivered, hasLast, last, first, adv, lost, closed >>

\* Maintain on an open Reassembler: just the clean-up loop
StartMaintain ==
    /\ pc = "idle" /\ ~closed
    /\ pc' = "clean"
    /\ UNCHANGED << buffered, complete, stale, late, inbuf, pushed, delivered, hasLast, last, first, adv, lost, closed >>

\* Close: CAS, then Clear
StartClose ==
    /\ pc = "idle" /\ ~closed
    /\ pc' = "clear" /\ closed' = TRUE
    /\ UNCHANGED << buffered, complete, stale, late, inbuf, pushed, delivered, hasLast, last, first, adv, lost >>

\* time passes: some buffered events are now past their timeout
Expire(S) ==
    /\ S \subseteq buffered
    /\ stale' = stale \union S
    /\ UNCHANGED << buffered, complete, late, inbuf, pushed, delivered, hasLast, last, first, adv, lost, pc, closed >>

IsHead(h) == h \in buffered /\ \A x \in buffered : h <= x
Cause(h) == pc = "clear" \/ h \in complete \/ Cardinality(buffered) > MaxInFlight \/ h \in stale

\* eventList.advance + remove + append to evicted, for the event e
Deliver(e, count) ==
    /\ buffered' = buffered \ {e} /\ complete' = complete \ {e} /\ stale' = stale \ {e} /\ late' = late \ {e}
    /\ delivered' = [delivered EXCEPT ![e] = @ + inbuf[e]]
    /\ inbuf' = [inbuf EXCEPT ![e] = 0]
    /\ IF ~count THEN UNCHANGED << hasLast, last, first, adv, lost >>
       ELSE IF ~hasLast THEN
            /\ hasLast' = TRUE /\ last' = e /\ first' = e /\ adv' = {e} /\ lost' = lost
       ELSE IF e > last THEN
            /\ lost' = lost + (e - last - 1) /\ last' = e /\ adv' = adv \union {e}
            /\ UNCHANGED << hasLast, first >>
       ELSE UNCHANGED << hasLast, last, first, adv, lost >>
    /\ UNCHANGED << pushed, pc, closed >>

EvictStep ==
    /\ pc \in {"clean", "clear"}
    /\ \E h \in buffered :
         /\ IsHead(h)
         /\ Cause(h)
         /\ Deliver(h, ~(Bug = "NoAdvanceOnStale" /\ pc = "clean" /\ h \in stale /\ h \notin complete
                         /\ Cardinality(buffered) <= MaxInFlight))

\* the seeded variant: expired events behind a younger, lower head are swept as well
SweepStep ==
    /\ Bug = "SweepBehindHead"
    /\ pc = "clean"
    /\ \E e \in stale : ~IsHead(e) /\ Deliver(e, TRUE)

EndLoop ==
    /\ pc \in {"clean", "clear"}
    /\ \A h \in buffered : IsHead(h) => ~Cause(h)
    /\ pc' = "idle"
    /\ UNCHANGED << buffered, complete, stale, late, inbuf, pushed, delivered, hasLast, last, first, adv, lost, closed >>

Next ==
    \/ \E o \in Off, kind \in Kinds : Put(o, kind)
    \/ StartMaintain
    \/ StartClose
    \/ \E S \in SUBSET Off : Expire(S)
    \/ EvictStep
    \/ SweepStep
    \/ EndLoop

\* ---- the inductive invariant -----------------------------------------------
IndInv ==
    /\ pc \in {"idle", "clean", "clear"}
    /\ buffered \subseteq Off /\ complete \subseteq buffered /\ stale \subseteq buffered /\ late \subseteq buffered
    \* C01: nothing is lost and nothing invented, per sequence number
    /\ \A o \in Off : pushed[o] >= 0 /\ delivered[o] >= 0 /\ inbuf[o] >= 0
    /\ \A o \in Off : pushed[o] = delivered[o] + inbuf[o]
    /\ \A o \in Off : (inbuf[o] > 0) <=> (o \in buffered)
    \* C02: whatever is buffered and was not opened behind `last` is still ahead of it
    /\ \A o \in buffered : (o \notin late /\ hasLast) => o > last
    /\ \A o \in late : hasLast /\ o <= last
    \* C03: the reported losses are exactly the numbers skipped between the first and the latest in-order delivery
    /\ lost >= 0
    /\ hasLast => (first \in Off /\ last \in Off /\ first <= last /\ first \in adv /\ last \in adv
                   /\ (\A a \in adv : first <= a /\ a <= last)
                   /\ lost + Cardinality(adv) = last - first + 1)
    /\ ~hasLast => (lost = 0 /\ adv = {} /\ \A o \in Off : delivered[o] = 0)
    \* C10: between calls the table is within its bound and its head is not a complete event
    /\ pc = "idle" => /\ Cardinality(buffered) <= MaxInFlight
                      /\ \A h \in buffered : IsHead(h) => h \notin complete
    /\ pc = "clear" => closed

\* pre-state of the inductive step: any state that satisfies the invariant; the ranges only keep
\* Apalache's symbolic sets finite (counts up to 3, so the step may reach 4)
IndInit ==
    /\ buffered \in SUBSET Off /\ complete \in SUBSET Off /\ stale \in SUBSET Off /\ late \in SUBSET Off
    /\ inbuf \in [Off -> 0..3] /\ pushed \in [Off -> 0..6] /\ delivered \in [Off -> 0..3]
    /\ hasLast \in BOOLEAN /\ last \in Off /\ first \in Off /\ adv \in SUBSET Off /\ lost \in 0..(K + 1)
    /\ pc \in {"idle", "clean", "clear"} /\ closed \in BOOLEAN
    /\ IndInv

\* ---- what the listed properties state, as consequences of IndInv -------------
Safety ==
    \* C01 exactly-once: once nothing is buffered every pushed record has been delivered, never more
    /\ (buffered = {}) => \A o \in Off : delivered[o] = pushed[o]
    /\ \A o \in Off : delivered[o] <= pushed[o]
    \* C02: the next event CleanUp can deliver is above everything delivered in order, unless it is a late arrival
    /\ \A h \in buffered : (IsHead(h) /\ h \notin late /\ hasLast) => h > last
    \* C03: loss reports never exceed the span seen, and a span without holes reports nothing
    /\ hasLast => lost <= last - first
    /\ (hasLast /\ (\A x \in Off : (first <= x /\ x <= last) => x \in adv)) => lost = 0
    \* C10
    /\ pc = "idle" => Cardinality(buffered) <= MaxInFlight
=============================================================================
