------------------------- MODULE ReassemblerMonitor -------------------------
(* Property automata for the single-goroutine Reassembler properties        *)
(*   C01 delivery exactly once, grouped, in push order, never split         *)
(*   C02 ascending order with the late-arrival exception                    *)
(*   C03 EventsLost = skipped sequence numbers, reported in the same call   *)
(*   C10 at most maxInFlight buffered; eviction only for cause              *)
(*   C19 timeout flushing (interval logic), Close flushes, after-Close      *)
(*                                                                          *)
(* The monitor reads only what a user of the API can observe: one record    *)
(* per API call (operation, arguments, the callbacks made during the call   *)
(* in order, the return value, and a [t0,t1] interval that contains the     *)
(* call).  It never blocks: StepCall returns the next monitor state and the *)
(* flags raised by this record.  The same operator judges records that the  *)
(* Model produces (MC modules) and records logged from the real code.    *)
(*                                                                          *)
(* Sequence numbers are carried as offsets from the trace's base, all in    *)
(* one 2^24 window (the property's quantifier); SeqWindowLemma proves that  *)
(* offset order is the code's roll-over aware order for the real constants. *)
EXTENDS Integers, Sequences, FiniteSets, FiniteSetsExt, TLC, Bytes

\* ---- record-type classes (Linux UAPI numbers, include/uapi/linux/audit.h)
AUDIT_EOE        == 1320
AUDIT_PROCTITLE  == 1327
AUDIT_LAST_DAEMON == 1299
AUDIT_FIRST_ANOM  == 2100   \* AUDIT_ANOM_LOGIN_FAILURES, first of the anomaly block

KindOf(t) == IF t = AUDIT_EOE THEN "eoe"
             ELSE IF t = AUDIT_PROCTITLE \/ t <= AUDIT_LAST_DAEMON \/ t >= AUDIT_FIRST_ANOM
                  THEN "completing" ELSE "plain"

EmptyFn == [x \in {} |-> 0]
Drop(f, k) == [x \in DOMAIN f \ {k} |-> f[x]]
Put(f, k, v) == [x \in DOMAIN f \cup {k} |-> IF x = k THEN v ELSE f[x]]

Flag(p, w) == [prop |-> p, why |-> w]

\* cfg: [max, tinf, timeout]   (timeout in the same unit as t0/t1; ignored when tinf)
MonInit(cfg) ==
    [ max    |-> cfg.max,
      tinf   |-> cfg.tinf,
      tmo    |-> cfg.timeout,
      und    |-> EmptyFn,      \* offset -> ids pushed and not yet delivered, push order
      comp   |-> {},           \* offsets of buffered events that are complete
      ct     |-> EmptyFn,      \* offset -> <<t0,t1>> of the call that opened the event
      poff   |-> EmptyFn,      \* id -> offset, every id ever pushed (EOE included)
      eoes   |-> {},           \* ids that are EOE records
      deliv  |-> {},           \* ids delivered so far
      hasLast |-> FALSE,       \* C03: has any event been delivered
      last   |-> 0,            \* C03: highest in-order offset delivered
      closed |-> FALSE,        \* a Close has succeeded
      expLost |-> 0,           \* C03, per call: gaps of events delivered in this call
      repLost |-> 0,           \* C03, per call: sum of the counts reported in this call
      flags  |-> << >> ]

\* ---- timing (C19) -------------------------------------------------------
\* An event opened during a call contained in [c0,c1] expires at put+tmo with
\* c0 <= put <= c1.  During a later call contained in [s0,s1]:
CannotBeExpired(m, o, s1) == m.tinf \/ s1 <= m.ct[o][1] + m.tmo
MustBeExpired(m, o, s0)   == ~m.tinf /\ s0 > m.ct[o][2] + m.tmo

\* ---- the operation itself ----------------------------------------------
ApplyOp(m, r) ==
    LET base == [m EXCEPT !.expLost = 0, !.repLost = 0, !.flags = << >>]
    IN
    IF r.op \in {"push", "pushraw"} /\ r.ret = "ok" THEN
        LET k == KindOf(r.type)
            o == r.off
            m1 == [base EXCEPT !.poff = Put(@, r.id, o)]
        IN  IF k = "eoe"
            THEN [m1 EXCEPT !.eoes = @ \cup {r.id},
                            !.comp = IF o \in DOMAIN m.und THEN @ \cup {o} ELSE @]
            ELSE [m1 EXCEPT
                    !.und  = IF o \in DOMAIN m.und THEN [@ EXCEPT ![o] = Append(@, r.id)]
                                                   ELSE Put(@, o, << r.id >>),
                    !.ct   = IF o \in DOMAIN m.und THEN @ ELSE Put(@, o, << r.t0, r.t1 >>),
                    !.comp = IF k = "completing" THEN @ \cup {o} ELSE @]
    ELSE base

\* ---- one callback ---------------------------------------------------------
NonEoe(m, ids) == SelectSeq(ids, LAMBDA i : i \notin m.eoes)

ApplyEv(m, r, ids) ==
    LET known   == \A i \in 1..Len(ids) : ids[i] \in DOMAIN m.poff
        offs    == { m.poff[ids[i]] : i \in { j \in 1..Len(ids) : ids[j] \in DOMAIN m.poff } }
        oneSeq  == Cardinality(offs) = 1
        s       == IF oneSeq THEN CHOOSE x \in offs : TRUE ELSE -1
        fresh   == \A i \in 1..Len(ids) : ids[i] \notin m.deliv
        nodup   == \A i, j \in 1..Len(ids) : i # j => ids[i] # ids[j]
        buffered == oneSeq /\ s \in DOMAIN m.und
        whole   == buffered /\ NonEoe(m, ids) = m.und[s]
        isHead  == buffered /\ s = Min(DOMAIN m.und)
        f01 == IF Len(ids) = 0 THEN << Flag("C01", "empty group delivered") >>
               ELSE IF ~known THEN << Flag("C01", "message delivered that was never pushed") >>
               ELSE IF ~fresh \/ ~nodup THEN << Flag("C01", "message delivered more than once") >>
               ELSE IF ~oneSeq THEN << Flag("C01", "group mixes sequence numbers") >>
               ELSE IF ~buffered THEN << Flag("C01", "group holds only records that are not awaiting delivery") >>
               ELSE IF ~whole THEN << Flag("C01", "group is not exactly the buffered records of its sequence in push order") >>
               ELSE << >>
        f02 == IF buffered /\ ~isHead
               THEN << Flag("C02", "delivered event is not the lowest undelivered sequence") >>
               \* records delivered before come again, behind higher-numbered events: not a late arrival (nothing new
               \* was pushed for that number), plain disorder
               ELSE IF known /\ oneSeq /\ ~fresh /\ m.hasLast /\ s < m.last
               THEN << Flag("C02", "an event that was delivered before is delivered again after higher-numbered events") >>
               ELSE << >>
        \* eviction cause, outside Close
        overflow == Cardinality(DOMAIN m.und) > m.max
        cause == ~buffered \/ r.op = "close" \/ s \in m.comp \/ overflow
                 \/ ~CannotBeExpired(m, s, r.t1)
        f10 == IF ~cause THEN << Flag("C10", "event evicted without cause (not complete, no overflow, timeout cannot have elapsed)"),
                                 Flag("C19", "event delivered on account of time before its timeout elapsed") >>
               ELSE << >>
        \* loss accounting
        inorder == buffered /\ (~m.hasLast \/ s > m.last)
        gap == IF buffered /\ m.hasLast /\ s > m.last THEN s - m.last - 1 ELSE 0
        m1 == [m EXCEPT !.flags = @ \o f01 \o f02 \o f10,
                        !.deliv = @ \cup { ids[i] : i \in 1..Len(ids) },
                        !.expLost = @ + gap,
                        !.hasLast = @ \/ buffered,
                        !.last = IF inorder THEN s ELSE @]
    IN  IF buffered
        THEN [m1 EXCEPT !.und = Drop(@, s), !.ct = Drop(@, s), !.comp = @ \ {s}]
        ELSE m1

\* n is a sequence of decimal digits
ApplyLost(m, n) ==
    IF Len(n) > 9 THEN [m EXCEPT !.flags = Append(@, Flag("C03", "reported loss exceeds any gap inside one 2^24 window")),
                                 !.repLost = -1]
    ELSE LET v == ValueOf(n)
         IN  IF v <= 0 THEN [m EXCEPT !.flags = Append(@, Flag("C03", "EventsLost called with a non-positive count"))]
             ELSE IF m.repLost < 0 THEN m
             ELSE [m EXCEPT !.repLost = @ + v]

ApplyCb(m, r, cb) == IF cb.k = "ev" THEN ApplyEv(m, r, cb.ids)
                     ELSE IF cb.k = "lost" THEN ApplyLost(m, cb.n)
                     ELSE [m EXCEPT !.flags = Append(@, Flag("C01", "unknown callback"))]

RECURSIVE ApplyCbs(_, _, _, _)
ApplyCbs(m, r, cbs, i) == IF i > Len(cbs) THEN m ELSE ApplyCbs(ApplyCb(m, r, cbs[i]), r, cbs, i + 1)

\* ---- end of the call -------------------------------------------------------
EndOfCall(m, r) ==
    LET nonempty == DOMAIN m.und # {}
        head == IF nonempty THEN Min(DOMAIN m.und) ELSE -1
        f03 == IF m.repLost >= 0 /\ m.repLost # m.expLost
               THEN << Flag("C03", "counts reported in this call differ from the sequence numbers skipped by the events it delivered") >>
               ELSE << >>
        \* C19 says so of Close in particular: every buffered event once, in order, with loss accounting
        f19loss == IF r.op = "close" /\ (m.repLost < 0 \/ m.repLost # m.expLost)
                   THEN << Flag("C19", "Close did not account correctly for the sequence numbers skipped by the events it delivered") >>
                   ELSE << >>
        isPush == r.op \in {"push", "pushraw"} /\ r.ret = "ok"
        f10 == IF isPush /\ ~m.closed /\ Cardinality(DOMAIN m.und) > m.max
               THEN << Flag("C10", "more than maxInFlight events buffered after PushMessage returned") >>
               ELSE IF isPush /\ ~m.closed /\ nonempty /\ head \in m.comp
               THEN << Flag("C10", "oldest buffered event is already complete after PushMessage returned") >>
               ELSE << >>
        live == ~m.closed /\ r.ret = "ok" /\ r.op \in {"push", "pushraw", "maintain"}
        f19a == IF live /\ nonempty /\ MustBeExpired(m, head, r.t0)
                THEN << Flag("C19", "oldest buffered event is past its timeout after the call returned") >>
                ELSE << >>
        \* Close / after-Close / constructor
        f19b ==
          IF r.op = "close" /\ ~m.closed THEN
               (IF r.ret # "ok" THEN << Flag("C19", "first Close did not succeed") >> ELSE << >>)
               \o (IF nonempty THEN << Flag("C19", "Close left buffered events undelivered"),
                                        Flag("C01", "pushed message not delivered by Close") >> ELSE << >>)
          ELSE IF r.op = "close" /\ m.closed THEN
               (IF r.ret # "err" THEN << Flag("C19", "second Close did not return an error") >> ELSE << >>)
               \o (IF Len(r.cbs) > 0 THEN << Flag("C19", "callback made by a Close after Close") >> ELSE << >>)
          ELSE IF r.op = "maintain" /\ m.closed THEN
               (IF r.ret # "err" THEN << Flag("C19", "Maintain after Close did not return an error") >> ELSE << >>)
               \o (IF Len(r.cbs) > 0 THEN << Flag("C19", "callback made by Maintain after Close") >> ELSE << >>)
          ELSE IF r.op = "maintain" /\ r.ret # "ok" THEN << Flag("C19", "Maintain failed on an open Reassembler") >>
          ELSE IF r.op = "newnil" /\ r.ret # "err" THEN << Flag("C19", "Reassembler created without a Stream") >>
          \* a nil message or a Push that is refused may or may not run the clean-up (C19 speaks of "the first
          \* Maintain or PushMessage made after the timeout"): whatever such a call delivers is judged like any
          \* other delivery by ApplyCbs, nothing more is asked of it
          ELSE << >>
        fpanic == IF r.ret = "panic" THEN << Flag("C01", "call panicked") >> ELSE << >>
    IN  [m EXCEPT !.flags = @ \o f03 \o f19loss \o f10 \o f19a \o f19b \o fpanic,
                  !.closed = @ \/ (r.op = "close" /\ r.ret = "ok")]

StepCall(m, r) == EndOfCall(ApplyCbs(ApplyOp(m, r), r, r.cbs, 1), r)

=============================================================================
