SPECIFICATION Spec
POSTCONDITION AllConsumed
CHECK_DEADLOCK FALSE
