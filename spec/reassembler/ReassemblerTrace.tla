-------------------------- MODULE ReassemblerTrace --------------------------
(* Trace validation: call records logged from the real Reassembler are      *)
(* judged by the same property monitor TLC checks against the model.        *)
(* Many traces are concatenated; a "reset" record starts a new one.         *)
(* The monitor never blocks, so acceptance is "every line was consumed"     *)
(* (TLCSet register 1 = high-water mark of l) and verdicts are FLAG lines.  *)
EXTENDS Integers, Sequences, TLC, Json, IOUtils

Mon == INSTANCE ReassemblerMonitor

Trace == ndJsonDeserialize(IOEnv.TRACE_FILE)

VARIABLES l, mon, tr

vars == << l, mon, tr >>

Init ==
    /\ l = 1
    /\ mon = Mon!MonInit([max |-> 0, tinf |-> TRUE, timeout |-> 0])
    /\ tr = 0
    /\ TLCSet(1, 1)

Report(m, line, t) ==
    \A i \in 1..Len(m.flags) :
        PrintT("FLAG " \o ToJson([prop |-> m.flags[i].prop, why |-> m.flags[i].why, line |-> line, trace |-> t]))

Next ==
    /\ l <= Len(Trace)
    /\ LET r == Trace[l] IN
         IF r.k = "reset" THEN
              /\ mon' = Mon!MonInit([max |-> r.max, tinf |-> r.tinf, timeout |-> r.timeout])
              /\ tr' = r.trace
         ELSE IF r.k = "call" THEN
              /\ mon' = Mon!StepCall(mon, r)
              /\ tr' = tr
         ELSE UNCHANGED << mon, tr >>
    /\ l' = l + 1
    /\ Report(mon', l, tr')
    /\ TLCSet(1, l + 1)

Spec == Init /\ [][Next]_vars

AllConsumed == TLCGet(1) = Len(Trace) + 1
=============================================================================
