------------------------------ MODULE ConcTrace ------------------------------
(* Trace validation for C11: observations of concurrent runs of the real    *)
(* Reassembler (controlled or free scheduler) judged by ConcMonitor.        *)
EXTENDS Integers, Sequences, TLC, Json, IOUtils

CM == INSTANCE ConcMonitor

Trace == ndJsonDeserialize(IOEnv.TRACE_FILE)

VARIABLES l, mon, tr
vars == << l, mon, tr >>

Init == l = 1 /\ mon = CM!CInit /\ tr = 0 /\ TLCSet(1, 1)

Report(m, line, t) ==
    \A i \in 1..Len(m.flags) :
        PrintT("FLAG " \o ToJson([prop |-> m.flags[i].prop, why |-> m.flags[i].why, line |-> line, trace |-> t]))

Next ==
    /\ l <= Len(Trace)
    /\ LET r == Trace[l] IN
         IF r.k = "reset" THEN mon' = CM!CInit /\ tr' = r.trace
         ELSE IF r.k = "meta" THEN UNCHANGED << mon, tr >>
         ELSE mon' = CM!CStep(mon, r) /\ tr' = tr
    /\ l' = l + 1
    /\ Report(mon', l, tr')
    /\ TLCSet(1, l + 1)

Spec == Init /\ [][Next]_vars
AllConsumed == TLCGet(1) = Len(Trace) + 1
=============================================================================
