--------------------------- MODULE ReassemblerConc ---------------------------
(* Concurrent model of libaudit.Reassembler: several goroutines, each       *)
(* running a short program of PushMessage / Maintain / Close, interleaved   *)
(* at the granularity of the code's atomic steps.                           *)
(*                                                                          *)
(*    PushMessage : [put]   Put (under the list mutex)                      *)
(*                  -- yield point "push" --                                *)
(*                  [clean] CleanUp (under the mutex); then callbacks       *)
(*    Maintain    : [load]  atomic load of closed (error if set)            *)
(*                  -- yield point "maintain" --                            *)
(*                  [clean] CleanUp; callbacks                              *)
(*    Close       : [cas]   CompareAndSwap(closed, 0, 1) (error if it fails)*)
(*                  -- yield point "close" --                               *)
(*                  [clear] Clear; callbacks                                *)
(*                                                                          *)
(* Callbacks are made by the calling goroutine after the mutex is released, *)
(* from data detached from the list.  A callback may re-enter the           *)
(* Reassembler (one level deep): the first ReassemblyComplete a goroutine   *)
(* receives performs the nested operation re[g].  With Fine = FALSE the     *)
(* callbacks of one eviction run eagerly with the step that produced them   *)
(* (sound for the C11 monitor: callbacks of different goroutines commute on *)
(* the shared state and the earliest return gives the largest obligation);  *)
(* with Fine = TRUE every ReassemblyComplete is its own scheduling point.   *)
EXTENDS Integers, Sequences, FiniteSets, FiniteSetsExt, TLC, Bytes

CONSTANTS
    G,            \* set of goroutine ids (1..N)
    MaxInFlight,
    Fine,         \* BOOLEAN
    NoOp          \* model value: "no nested operation"

VARIABLES
    buf, order, last, hasLast, closed,    \* shared state (see Reassembler.tla)
    prog,     \* g -> sequence of operations [op, off, type]
    re,       \* g -> nested operation performed inside the first callback, or NoOp
    ip,       \* g -> index of the current operation
    pc,       \* g -> "entry" | "mid" | "cb" | "nmid" | "ncb" | "done"
    fr,       \* g -> frame: [ev, lost, nev, nlost, armed]
    obs,      \* interleaved observation: what a harness can log
    sched     \* the schedule: goroutine id per step

svars == << buf, order, last, hasLast, closed >>
vars == << buf, order, last, hasLast, closed, prog, re, ip, pc, fr, obs, sched >>

EOE == 1320
Completing(t) == t = 1327 \/ t <= 1299 \/ t >= 2100

EmptyFn == [x \in {} |-> 0]
Drop(f, k) == [x \in DOMAIN f \ {k} |-> f[x]]
PutFn(f, k, v) == [x \in DOMAIN f \cup {k} |-> IF x = k THEN v ELSE f[x]]

\* sequence numbers are plain offsets here (ordering across the roll-over is
\* the sequential model's business)
PutMsg(S, id, s, t) ==
    IF t = EOE THEN
        [S EXCEPT !.buf = IF s \in DOMAIN S.buf THEN [S.buf EXCEPT ![s].complete = TRUE] ELSE S.buf]
    ELSE IF s \in DOMAIN S.buf THEN
        [S EXCEPT !.buf = [S.buf EXCEPT ![s].msgs = Append(@, id), ![s].complete = @ \/ Completing(t)]]
    ELSE
        [S EXCEPT !.buf = PutFn(S.buf, s, [msgs |-> << id >>, complete |-> Completing(t)]),
                  !.order = SortSeq(Append(S.order, s), LAMBDA a, b : a < b)]

Advance(l, hl, s) ==
    IF ~hl THEN [lost |-> 0, last |-> s]
    ELSE IF s <= l THEN [lost |-> 0, last |-> l]
    ELSE [lost |-> s - l - 1, last |-> s]

\* S: shared record [buf, order, last, hasLast, closed]; returns [S, ev, lost]
RECURSIVE Evict(_, _, _, _)
Evict(S, all, ev, lost) ==
    IF Len(S.order) = 0 THEN [S |-> S, ev |-> ev, lost |-> lost]
    ELSE LET s == Head(S.order)
             e == S.buf[s]
         IN  IF all \/ e.complete \/ Len(S.order) > MaxInFlight THEN
                 LET a == Advance(S.last, S.hasLast, s)
                 IN  Evict([S EXCEPT !.buf = Drop(S.buf, s), !.order = Tail(S.order),
                                     !.last = a.last, !.hasLast = TRUE],
                           all, Append(ev, e.msgs), lost + a.lost)
             ELSE [S |-> S, ev |-> ev, lost |-> lost]

\* ---- observations ---------------------------------------------------------
\* e: "call" | "cb" | "lost" | "ret"
Ob(e, g, op, id, off, t, ids, ret, nested) ==
    [k |-> "obs", e |-> e, g |-> g, op |-> op, id |-> id, off |-> off, type |-> t,
     ids |-> ids, ret |-> ret, nested |-> nested, n |-> 0]
ObLost(g, op, id, n, nested) ==
    [k |-> "obs", e |-> "lost", g |-> g, op |-> op, id |-> id, off |-> 0, type |-> 0,
     ids |-> << >>, ret |-> "", nested |-> nested, n |-> n]

TopId(g, i) == 100 * g + i
NestedId(g) == 100 * g + 90

\* ---- the goroutine-local continuation ---------------------------------------
\* L: [S, obs, pc, ev, lost, nev, nlost, armed, fresh]
\*   fresh = TRUE when the goroutine was just resumed at a callback gate, so the
\*   next callback is delivered without parking again.
RECURSIVE RunTop(_, _), RunNested(_, _)

NestedStep1(L, g) ==
    LET r == re[g]
        id == NestedId(g)
        L1 == [L EXCEPT !.obs = Append(@, Ob("call", g, r.op, id, r.off, r.type, << >>, "", TRUE))]
    IN  IF r.op = "push" THEN
            [L1 EXCEPT !.S = PutMsg(@, id, r.off, r.type), !.pc = "nmid"]
        ELSE IF r.op = "maintain" THEN
            IF L1.S.closed
            THEN RunTop([L1 EXCEPT !.obs = Append(@, Ob("ret", g, r.op, id, 0, 0, << >>, "err", TRUE))], g)
            ELSE [L1 EXCEPT !.pc = "nmid"]
        ELSE \* close
            IF L1.S.closed
            THEN RunTop([L1 EXCEPT !.obs = Append(@, Ob("ret", g, r.op, id, 0, 0, << >>, "err", TRUE))], g)
            ELSE [L1 EXCEPT !.S.closed = TRUE, !.pc = "nmid"]

RunTop(L, g) ==
    LET top == prog[g][ip[g]]
        tid == TopId(g, ip[g])
    IN
    IF Len(L.ev) = 0 THEN
        LET o1 == IF L.lost > 0 THEN Append(L.obs, ObLost(g, top.op, tid, L.lost, FALSE)) ELSE L.obs
        IN  [L EXCEPT !.obs = Append(o1, Ob("ret", g, top.op, tid, 0, 0, << >>, "ok", FALSE)), !.pc = "entry+"]
    ELSE IF Fine /\ ~L.fresh THEN [L EXCEPT !.pc = "cb"]
    ELSE
        LET L1 == [L EXCEPT !.obs = Append(@, Ob("cb", g, top.op, tid, 0, 0, Head(L.ev), "", FALSE)),
                            !.ev = Tail(@), !.fresh = FALSE]
        IN  IF L1.armed /\ re[g] # NoOp
            THEN NestedStep1([L1 EXCEPT !.armed = FALSE], g)
            ELSE RunTop(L1, g)

RunNested(L, g) ==
    LET r == re[g]
        id == NestedId(g)
    IN
    IF Len(L.nev) = 0 THEN
        LET o1 == IF L.nlost > 0 THEN Append(L.obs, ObLost(g, r.op, id, L.nlost, TRUE)) ELSE L.obs
        IN  RunTop([L EXCEPT !.obs = Append(o1, Ob("ret", g, r.op, id, 0, 0, << >>, "ok", TRUE)), !.nlost = 0], g)
    ELSE IF Fine /\ ~L.fresh THEN [L EXCEPT !.pc = "ncb"]
    ELSE RunNested([L EXCEPT !.obs = Append(@, Ob("cb", g, r.op, id, 0, 0, Head(L.nev), "", TRUE)),
                             !.nev = Tail(@), !.fresh = FALSE], g)

Shared == [buf |-> buf, order |-> order, last |-> last, hasLast |-> hasLast, closed |-> closed]
Local(g, fresh) == [S |-> Shared, obs |-> obs, pc |-> pc[g], ev |-> fr[g].ev, lost |-> fr[g].lost,
                    nev |-> fr[g].nev, nlost |-> fr[g].nlost, armed |-> fr[g].armed, fresh |-> fresh]

\* install the result of a step
Commit(g, L) ==
    /\ buf' = L.S.buf /\ order' = L.S.order /\ last' = L.S.last /\ hasLast' = L.S.hasLast
    /\ closed' = L.S.closed
    /\ obs' = L.obs
    /\ fr' = [fr EXCEPT ![g] = [ev |-> L.ev, lost |-> L.lost, nev |-> L.nev, nlost |-> L.nlost, armed |-> L.armed]]
    /\ IF L.pc = "entry+"
       THEN /\ ip' = [ip EXCEPT ![g] = @ + 1]
            /\ pc' = [pc EXCEPT ![g] = IF ip[g] + 1 > Len(prog[g]) THEN "done" ELSE "entry"]
       ELSE /\ ip' = ip
            /\ pc' = [pc EXCEPT ![g] = L.pc]
    /\ sched' = Append(sched, g)
    /\ UNCHANGED << prog, re >>

\* ---- steps --------------------------------------------------------------------
StepEntry(g) ==
    /\ pc[g] = "entry"
    /\ LET op == prog[g][ip[g]]
           id == TopId(g, ip[g])
           L0 == Local(g, FALSE)
           L1 == [L0 EXCEPT !.obs = Append(@, Ob("call", g, op.op, id, op.off, op.type, << >>, "", FALSE))]
       IN  IF op.op = "push" THEN
               Commit(g, [L1 EXCEPT !.S = PutMsg(@, id, op.off, op.type), !.pc = "mid"])
           ELSE IF L1.S.closed THEN   \* Maintain / Close on a closed Reassembler
               Commit(g, [L1 EXCEPT !.obs = Append(@, Ob("ret", g, op.op, id, 0, 0, << >>, "err", FALSE)), !.pc = "entry+"])
           ELSE IF op.op = "maintain" THEN Commit(g, [L1 EXCEPT !.pc = "mid"])
           ELSE Commit(g, [L1 EXCEPT !.S.closed = TRUE, !.pc = "mid"])

StepMid(g) ==
    /\ pc[g] = "mid"
    /\ LET op == prog[g][ip[g]]
           L0 == Local(g, FALSE)
           ev == Evict(L0.S, op.op = "close", << >>, 0)
       IN  Commit(g, RunTop([L0 EXCEPT !.S = ev.S, !.ev = ev.ev, !.lost = ev.lost], g))

StepCb(g) ==
    /\ pc[g] = "cb"
    /\ Commit(g, RunTop(Local(g, TRUE), g))

StepNMid(g) ==
    /\ pc[g] = "nmid"
    /\ LET L0 == Local(g, FALSE)
           ev == Evict(L0.S, re[g].op = "close", << >>, 0)
       IN  Commit(g, RunNested([L0 EXCEPT !.S = ev.S, !.nev = ev.ev, !.nlost = ev.lost], g))

StepNCb(g) ==
    /\ pc[g] = "ncb"
    /\ Commit(g, RunNested(Local(g, TRUE), g))

Step(g) == StepEntry(g) \/ StepMid(g) \/ StepCb(g) \/ StepNMid(g) \/ StepNCb(g)

AllDone == \A g \in G : pc[g] = "done"

Next == (\E g \in G : Step(g)) \/ (AllDone /\ UNCHANGED vars)

InitWith(programs, nested) ==
    /\ buf = EmptyFn /\ order = << >> /\ last = 0 /\ hasLast = FALSE /\ closed = FALSE
    /\ prog \in [G -> programs]
    /\ re \in [G -> nested]
    /\ ip = [g \in G |-> 1]
    /\ pc = [g \in G |-> "entry"]
    /\ fr = [g \in G |-> [ev |-> << >>, lost |-> 0, nev |-> << >>, nlost |-> 0, armed |-> TRUE]]
    /\ obs = << >>
    /\ sched = << >>

\* ---- structural invariants -------------------------------------------------------
OrderMatchesBuf == { order[i] : i \in 1..Len(order) } = DOMAIN buf /\ Len(order) = Cardinality(DOMAIN buf)
Sorted == \A i \in 1..(Len(order) - 1) : order[i] < order[i + 1]
=============================================================================
