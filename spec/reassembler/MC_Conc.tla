------------------------------ MODULE MC_Conc ------------------------------
(* ReassemblerConc || C11 monitor, bounded for TLC; dumps every schedule.   *)
EXTENDS ReassemblerConc, Json

CONSTANTS Offs, Types, MaxLen, NestedKinds, Dump, Symmetric

CM == INSTANCE ConcMonitor

Ops == { [op |-> "push", off |-> o, type |-> t] : o \in Offs, t \in Types }
       \cup { [op |-> "maintain", off |-> 0, type |-> 0], [op |-> "close", off |-> 0, type |-> 0] }

Programs == UNION { [1..n -> Ops] : n \in 1..MaxLen }

NestedOps ==
    {NoOp}
    \cup (IF "maintain" \in NestedKinds THEN { [op |-> "maintain", off |-> 0, type |-> 0] } ELSE {})
    \cup (IF "close" \in NestedKinds THEN { [op |-> "close", off |-> 0, type |-> 0] } ELSE {})
    \cup (IF "push" \in NestedKinds THEN { [op |-> "push", off |-> o, type |-> t] : o \in Offs, t \in Types } ELSE {})

\* a cheap total order on operations, to drop mirror-image program pairs
OpRank(o) == (IF o.op = "push" THEN 0 ELSE IF o.op = "maintain" THEN 1000 ELSE 2000) + 10 * o.off + (o.type % 7)
RECURSIVE ProgRank(_)
ProgRank(p) == IF Len(p) = 0 THEN 0 ELSE OpRank(Head(p)) + 3001 * ProgRank(Tail(p))

MCInit ==
    /\ InitWith(Programs, NestedOps)
    /\ Symmetric => \A g, h \in G : g < h => ProgRank(prog[g]) <= ProgRank(prog[h])

MCSpec == MCInit /\ [][Next]_vars

C11Holds == AllDone => Len(CM!FlagsOfRun(obs)) = 0
\* prefix-monotone clauses are checked in every state
AtMostOnce ==
    LET cbs == SelectSeq(obs, LAMBDA o : o.e = "cb")
        all == [i \in 1..Len(cbs) |-> cbs[i].ids]
    IN  \A i, j \in 1..Len(all) : \A a \in 1..Len(all[i]), b \in 1..Len(all[j]) :
            (i # j \/ a # b) => all[i][a] # all[j][b]

DumpSchedules ==
    (Dump /\ AllDone) =>
        PrintT("BEH " \o ToJson([prog |-> prog, re |-> [g \in G |-> IF re[g] = NoOp THEN [op |-> "none", off |-> 0, type |-> 0] ELSE re[g]],
                                  sched |-> sched,
                                  pred |-> [i \in 1..Len(obs) |-> << obs[i].e, obs[i].g, obs[i].id, obs[i].ids, obs[i].ret, obs[i].n >>]]))
=============================================================================
