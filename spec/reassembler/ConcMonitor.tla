---------------------------- MODULE ConcMonitor ----------------------------
(* C11 as a property automaton over the interleaved observation of a        *)
(* concurrent run of the Reassembler (calls, callbacks, returns, in the     *)
(* order a harness sees them).                                              *)
(*                                                                          *)
(*   - every message is delivered at most once, in a non-empty group of     *)
(*     pushed messages that all carry one sequence number;                  *)
(*   - when all calls have returned, every non-EOE message whose push       *)
(*     returned before the earliest invocation of Close has been delivered  *)
(*     (the weakest reading of "before Close was invoked");                 *)
(*   - if Close was called at all, exactly one call returned nil;           *)
(*   - no goroutine got stuck, and the race detector stayed silent.         *)
(*                                                                          *)
(* Two record shapes are judged: "obs" records from the controlled          *)
(* scheduler (totally ordered), and the order-insensitive summary records   *)
(* of free-running stress runs ("fpush", "fclose", "fdeliv"), where         *)
(* "returned before Close was invoked" is decided by stamps drawn from one  *)
(* shared atomic counter (a real happens-before).                           *)
EXTENDS Integers, Sequences, FiniteSets, FiniteSetsExt, TLC

EOE == 1320
EmptyFn == [x \in {} |-> 0]
PutFn(f, k, v) == [x \in DOMAIN f \cup {k} |-> IF x = k THEN v ELSE f[x]]
Flag(w) == [prop |-> "C11", why |-> w]

CInit ==
    [ poff |-> EmptyFn,      \* id -> sequence offset of every pushed message
      eoes |-> {},           \* ids that are EOE records
      deliv |-> {},          \* ids delivered
      retPush |-> {},        \* pushes that have returned
      before |-> {},         \* pushes that returned before the earliest Close invocation
      stamp |-> EmptyFn,     \* free mode: id -> stamp taken after the push returned
      closeStamp |-> -1,     \* free mode: smallest stamp taken before a Close call
      closeCalls |-> 0,
      closeOk |-> 0,
      flags |-> << >> ]

GroupFlags(m, ids) ==
    LET known == \A i \in 1..Len(ids) : ids[i] \in DOMAIN m.poff
        offs  == { m.poff[ids[i]] : i \in { j \in 1..Len(ids) : ids[j] \in DOMAIN m.poff } }
        fresh == \A i \in 1..Len(ids) : ids[i] \notin m.deliv
        nodup == \A i, j \in 1..Len(ids) : i # j => ids[i] # ids[j]
    IN  IF Len(ids) = 0 THEN << Flag("empty group delivered") >>
        ELSE IF ~known THEN << Flag("message delivered that was never pushed") >>
        ELSE IF ~fresh \/ ~nodup THEN << Flag("message delivered more than once") >>
        ELSE IF Cardinality(offs) # 1 THEN << Flag("group mixes sequence numbers") >>
        ELSE << >>

CStep(m0, o) ==
    LET m == [m0 EXCEPT !.flags = << >>] IN
    IF o.k = "obs" THEN
        IF o.e = "call" THEN
            IF o.op = "push" THEN
                [m EXCEPT !.poff = PutFn(@, o.id, o.off),
                          !.eoes = IF o.type = EOE THEN @ \cup {o.id} ELSE @]
            ELSE IF o.op = "close" THEN
                [m EXCEPT !.before = IF m.closeCalls = 0 THEN m.retPush ELSE @,
                          !.closeCalls = @ + 1]
            ELSE m
        ELSE IF o.e = "cb" THEN
            [m EXCEPT !.flags = GroupFlags(m, o.ids),
                      !.deliv = @ \cup { o.ids[i] : i \in 1..Len(o.ids) }]
        ELSE IF o.e = "ret" THEN
            IF o.ret = "panic" THEN [m EXCEPT !.flags = << Flag("call panicked") >>]
            ELSE IF o.op = "push" THEN [m EXCEPT !.retPush = @ \cup {o.id}]
            ELSE IF o.op = "close" /\ o.ret = "ok" THEN [m EXCEPT !.closeOk = @ + 1]
            ELSE m
        ELSE m
    ELSE IF o.k = "fpush" THEN     \* free mode: a push that has returned, with its stamp
        [m EXCEPT !.poff = PutFn(@, o.id, o.off),
                  !.eoes = IF o.type = EOE THEN @ \cup {o.id} ELSE @,
                  !.stamp = PutFn(@, o.id, o.stamp)]
    ELSE IF o.k = "fclose" THEN
        [m EXCEPT !.closeCalls = @ + 1,
                  !.closeOk = IF o.ret = "ok" THEN @ + 1 ELSE @,
                  !.closeStamp = IF @ < 0 \/ o.stamp < @ THEN o.stamp ELSE @]
    ELSE IF o.k = "fdeliv" THEN
        [m EXCEPT !.flags = GroupFlags(m, o.ids),
                  !.deliv = @ \cup { o.ids[i] : i \in 1..Len(o.ids) }]
    ELSE IF o.k = "race" THEN [m EXCEPT !.flags = << Flag("data race reported by the race detector") >>]
    ELSE IF o.k = "end" THEN
        LET obliged == (m.before \cup { i \in DOMAIN m.stamp : m.closeStamp >= 0 /\ m.stamp[i] < m.closeStamp }) \ m.eoes
            f1 == IF o.stuck THEN << Flag("deadlock: a goroutine never returned from the Reassembler") >> ELSE << >>
            f2 == IF ~o.stuck /\ obliged \ m.deliv # {}
                  THEN << Flag("message whose push returned before Close was invoked was never delivered") >> ELSE << >>
            f3 == IF ~o.stuck /\ m.closeCalls > 0 /\ m.closeOk # 1
                  THEN << Flag("number of successful Close calls is not exactly one") >> ELSE << >>
            f4 == IF o.panics > 0 THEN << Flag("a call into the Reassembler panicked under concurrent use") >> ELSE << >>
        IN  [m EXCEPT !.flags = f1 \o f2 \o f3 \o f4]
    ELSE m

RECURSIVE CRun(_, _, _, _)
\* all flags of a whole observation
CRun(m, os, i, acc) ==
    IF i > Len(os) THEN acc
    ELSE LET m1 == CStep(m, os[i]) IN CRun(m1, os, i + 1, acc \o m1.flags)

EndRec(stuck) == [k |-> "end", stuck |-> stuck, panics |-> 0]
FlagsOfRun(os) == CRun(CInit, Append(os, EndRec(FALSE)), 1, << >>)
=============================================================================
