------------------------ MODULE MC_ReassemblerView ------------------------
(* The sequential Reassembler model explored much deeper than MC_Reassembler *)
(* can go: message identities, the call counter, the absolute clock and the  *)
(* observation are hidden by a VIEW (an event is its record count, its       *)
(* completeness and its remaining life), so histories that lead to the same  *)
(* buffer merge.  Only the model's own state invariants are checked here     *)
(* (the statement of C10 / C19 / C02 on the model's state); the property     *)
(* monitor, which needs identities, runs in MC_Reassembler.                  *)
EXTENDS Reassembler

CONSTANTS MaxOps, MaxTicks, TimeoutP1

VARIABLES ticks

TimeoutDef == TimeoutP1 - 1

vvars == << mvars, rec, ticks >>

VInit == Init /\ ticks = 0

VNext ==
    /\ nops < MaxOps
    /\ \/ \E o \in 0..(Width - 1), t \in Types : Push(o, t) /\ UNCHANGED ticks
       \/ Maintain /\ UNCHANGED ticks
       \/ Close /\ UNCHANGED ticks
       \/ ticks < MaxTicks /\ Tick /\ ticks' = ticks + 1

VSpec == VInit /\ [][VNext]_vvars

Life(e) == IF e.expire = Inf THEN Inf ELSE IF e.expire - now < -1 THEN -1 ELSE e.expire - now

View == << [s \in DOMAIN buf |-> << Len(buf[s].msgs), buf[s].complete, Life(buf[s]) >>],
           order, last, hasLast, closed, rec.op, rec.ret, ticks >>

BoundAfterPush == rec.op = "push" /\ ~closed => Len(order) <= MaxInFlight
HeadNotCompleteAfterPush == rec.op = "push" /\ Len(order) > 0 => ~buf[Head(order)].complete
NothingStaleAfterCall ==
    rec.op \in {"push", "maintain"} /\ rec.ret = "ok" /\ Len(order) > 0 => ~(now > buf[Head(order)].expire)
EmptyAfterClose == rec.op = "close" /\ rec.ret = "ok" => Len(order) = 0
=============================================================================
