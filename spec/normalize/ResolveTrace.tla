----------------------------- MODULE ResolveTrace -----------------------------
EXTENDS Integers, Sequences, TLC, Json, IOUtils

RZ == INSTANCE Resolve
Trace == ndJsonDeserialize(IOEnv.TRACE_FILE)

VARIABLES l, db, flags
vars == << l, db, flags >>
Init == l = 1 /\ db = << >> /\ flags = << >> /\ TLCSet(1, 1)

Report(fl, line, t) ==
    \A i \in 1..Len(fl) : PrintT("FLAG " \o ToJson([prop |-> fl[i].prop, why |-> fl[i].why, line |-> line, trace |-> t]))

Next ==
    /\ l <= Len(Trace)
    /\ LET r == Trace[l] IN
         IF r.k = "db" THEN db' = r /\ flags' = << >>
         ELSE IF r.k = "res" THEN db' = db /\ flags' = RZ!JudgeResolve(db, r) /\ Report(flags', l, r.trace)
         ELSE db' = db /\ flags' = << >>
    /\ l' = l + 1
    /\ TLCSet(1, l + 1)

Spec == Init /\ [][Next]_vars
AllConsumed == TLCGet(1) = Len(Trace) + 1
=============================================================================
