------------------------------- MODULE Resolve -------------------------------
(* ResolveIDs (aucoalesce.ResolveIDsFromCaches) over a user and a group      *)
(* database: which fields of an event are translated, through which         *)
(* database, in which direction.  Beyond the 20 listed properties (DESIGN   *)
(* section 10).  The databases are data (the harness injects them behind    *)
(* the caches and writes them to the trace); an id or name the database     *)
(* does not know resolves to "".                                            *)
EXTENDS Integers, Sequences, FiniteSets, TLC

Has(f, k) == k \in DOMAIN f
Look(f, k) == IF Has(f, k) THEN f[k] ELSE ""

\* the keys of User.IDs by the database they go through (strings are opaque in TLC: the harness refuses
\* keys outside these sets)
UidKeys == { "uid", "auid", "euid", "suid", "fsuid", "ouid", "obj_uid", "old-auid", "old_auid", "new-auid", "new_auid", "oauid", "sauid", "iuid" }
GidKeys == { "gid", "egid", "sgid", "fsgid", "ogid", "obj_gid", "new_gid", "igid" }

\* ECSEntityData.lookup: an entity that has exactly one of id and name gets the other one (possibly "")
Entity(ent, byID, byName) ==
    IF (ent.id = "") = (ent.name = "") THEN ent
    ELSE IF ent.id # "" THEN [ent EXCEPT !.name = Look(byID, ent.id)]
    ELSE [ent EXCEPT !.id = Look(byName, ent.name)]

\* db: [users: [by_id, by_name], groups: [by_id, by_name]]
\* e (before): [actor_primary, actor_secondary, ids, has_file, file_uid, file_gid,
\*              ecs: [user, effective, target, changes, group]]   entities are [id, name]
Resolved(db, e) ==
    LET U == db.users.by_id
        G == db.groups.by_id
        keep(old, new) == IF new # "" THEN new ELSE old
        names == [k \in { k \in DOMAIN e.ids : (k \in UidKeys /\ Look(U, e.ids[k]) # "") \/ (k \in GidKeys /\ Look(G, e.ids[k]) # "") } |->
                     IF k \in UidKeys THEN U[e.ids[k]] ELSE G[e.ids[k]]]
    IN  [ actor_primary |-> keep(e.actor_primary, Look(U, e.actor_primary)),
          actor_secondary |-> keep(e.actor_secondary, Look(U, e.actor_secondary)),
          names |-> names,
          file_owner |-> IF e.has_file /\ e.file_uid # "" THEN Look(U, e.file_uid) ELSE "",
          file_group |-> IF e.has_file /\ e.file_gid # "" THEN Look(G, e.file_gid) ELSE "",
          ecs |-> [ user |-> Entity(e.ecs.user, U, db.users.by_name),
                    effective |-> Entity(e.ecs.effective, U, db.users.by_name),
                    target |-> Entity(e.ecs.target, U, db.users.by_name),
                    changes |-> Entity(e.ecs.changes, U, db.users.by_name),
                    group |-> Entity(e.ecs.group, G, db.groups.by_name) ] ]

RFlag(w) == [prop |-> "X-RESOLVE", why |-> w]

\* o: [before, after: [actor_primary, actor_secondary, names, file_owner, file_group, ecs], unchanged (everything else equal)]
JudgeResolve(db, o) ==
    LET x == Resolved(db, o.before)
        a == o.after
    IN  (IF a.actor_primary # x.actor_primary \/ a.actor_secondary # x.actor_secondary
         THEN << RFlag("the actor is not the user database's name for the id (or the id itself when there is none)") >> ELSE << >>)
        \o (IF a.names # x.names THEN << RFlag("User.Names is not the names of the uid keys (user database) and gid keys (group database) that have one") >> ELSE << >>)
        \o (IF a.file_owner # x.file_owner \/ a.file_group # x.file_group
            THEN << RFlag("file owner / group are not the databases' names for the file's uid / gid") >> ELSE << >>)
        \o (IF a.ecs # x.ecs THEN << RFlag("an ECS entity that has one of id and name did not get the other from its database") >> ELSE << >>)
        \o (IF ~o.unchanged THEN << RFlag("ResolveIDs changed a field it has no business with") >> ELSE << >>)
=============================================================================
