------------------------------ MODULE Normalize ------------------------------
(* The normalisation step of the coalescer (aucoalesce.applyNormalization)  *)
(* as an interpreter of the normalisation table: which entry is selected    *)
(* for an event, and what the entry makes of the event's fields - action,   *)
(* ECS kind/category/type/outcome, actor, object, how, source address and   *)
(* the ECS user/group mappings.  Beyond the 20 listed properties (DESIGN    *)
(* section 10).                                                             *)
(*                                                                          *)
(* The table is data: the harness reads normalizations.yaml with a generic  *)
(* YAML decoder (not with the library's loader) and hands every entry over  *)
(* as a record; this module fixes only the meaning of an entry.  The event  *)
(* is rebuilt here from what each input record reports (Data), the way      *)
(* newEvent / normalizeCompound distribute it.  Keys and values are         *)
(* strings; a map is a function from strings.                               *)
EXTENDS Integers, Sequences, FiniteSets, TLC

\* ---- the fields of the primary record, as newEvent distributes them -------------------
\* keys that end in uid/gid go to User.IDs, subj_* to the SELinux labels, result and ses to
\* their own fields; the rest is Data.  (Strings cannot be taken apart in TLC: the sets are
\* listed, and the harness refuses to generate a key it could not classify with them.)
IdKeys == { "uid", "auid", "euid", "suid", "fsuid", "gid", "egid", "sgid", "fsgid", "ouid", "ogid",
            "obj_uid", "obj_gid", "old-auid", "old_auid", "new-auid", "new_auid", "oauid", "sauid", "iuid", "igid", "new_gid" }
SubjKeys == { "subj_user", "subj_role", "subj_domain", "subj_level", "subj_category", "subj" }
OwnKeys == { "result", "ses" }

Has(f, k) == k \in DOMAIN f
Restrict(f, S) == [k \in (DOMAIN f) \cap S |-> f[k]]
Without(f, S) == [k \in (DOMAIN f) \ S |-> f[k]]
\* g's entries are added where f has none (addFieldsToEventData: the first writer wins)
AddMissing(f, g) == [k \in (DOMAIN f) \cup (DOMAIN g) |-> IF k \in DOMAIN f THEN f[k] ELSE g[k]]
Put(f, k, v) == [x \in (DOMAIN f) \cup {k} |-> IF x = k THEN v ELSE f[x]]

DataOf(rec) == Without(rec, IdKeys \cup SubjKeys \cup OwnKeys)
IdsOf(rec) == Restrict(rec, IdKeys)

\* ---- the event as the normaliser sees it ------------------------------------------------------
\* recs: sequence of [type (record type name), data (what the record's Data() reports)]
Incoming == { "recvfrom", "recvmsg", "accept", "accept4" }
\* every key of the SOCKADDR record, prefixed (addSockaddrRecord)
Socket(d) == LET pairs == { << "socket_" \o x, d[x] >> : x \in DOMAIN d }
             IN  [k \in { p[1] : p \in pairs } |-> (CHOOSE p \in pairs : p[1] = k)[2]]
Overlay(f, g) == [k \in (DOMAIN f) \cup (DOMAIN g) |-> IF k \in DOMAIN g THEN g[k] ELSE f[k]]
NonEmpty(d, k) == Has(d, k) /\ d[k] # ""

RECURSIVE Fold(_, _, _)
Fold(recs, i, acc) ==
    IF i > Len(recs) THEN acc
    ELSE LET r == recs[i] IN
         Fold(recs, i + 1,
              IF r.type = "SYSCALL" THEN [acc EXCEPT !.data = Without(@, { "items" })]
              ELSE IF r.type = "PATH" THEN [acc EXCEPT !.paths = Append(@, r.data)]
              ELSE IF r.type = "SOCKADDR" THEN
                   (IF ~Has(acc.data, "syscall") THEN acc
                    ELSE [acc EXCEPT !.data = AddMissing(@, Socket(r.data)),
                                     !.src_preset = @ \/ (acc.data["syscall"] \in Incoming
                                                          /\ (NonEmpty(r.data, "addr") \/ NonEmpty(r.data, "port") \/ NonEmpty(r.data, "path")))])
              ELSE IF r.type = "EXECVE" THEN [acc EXCEPT !.data = IF Has(r.data, "argc") THEN AddMissing(@, Restrict(r.data, { "argc" })) ELSE @]
              ELSE [acc EXCEPT !.data = AddMissing(@, r.data)])

FirstSyscall(recs) == CHOOSE i \in 1..Len(recs) : recs[i].type = "SYSCALL" /\ \A j \in 1..(i - 1) : recs[j].type # "SYSCALL"

\* [type, data, ids, result, paths, src_preset]
BuildEvent(recs) ==
    IF Len(recs) = 1 THEN
        LET d == recs[1].data IN
        [type |-> recs[1].type, data |-> DataOf(d), ids |-> IdsOf(d),
         result |-> IF Has(d, "result") THEN d["result"] ELSE "unknown", paths |-> << >>, src_preset |-> FALSE]
    ELSE
        LET d == recs[FirstSyscall(recs)].data
            acc0 == [type |-> recs[1].type, data |-> DataOf(d), ids |-> IdsOf(d),
                     result |-> IF Has(d, "result") THEN d["result"] ELSE "unknown", paths |-> << >>, src_preset |-> FALSE]
        IN  Fold(recs, 1, acc0)

GetValue(e, k) == IF Has(e.data, k) THEN << TRUE, e.data[k] >> ELSE IF Has(e.ids, k) THEN << TRUE, e.ids[k] >> ELSE << FALSE, "" >>

RECURSIVE FirstFound(_, _, _)
\* the value of the first key of keys (from i) that the event has: << found, value, key >>
FirstFound(e, keys, i) ==
    IF i > Len(keys) THEN << FALSE, "", "" >>
    ELSE LET g == GetValue(e, keys[i]) IN IF g[1] THEN << TRUE, g[2], keys[i] >> ELSE FirstFound(e, keys, i + 1)

RECURSIVE FirstInData(_, _, _)
FirstInData(e, keys, i) ==
    IF i > Len(keys) THEN << FALSE, "", "" >>
    ELSE IF Has(e.data, keys[i]) THEN << TRUE, e.data[keys[i]], keys[i] >> ELSE FirstInData(e, keys, i + 1)

\* ---- selecting the entry --------------------------------------------------------------------
InSeq(s, x) == \E i \in 1..Len(s) : s[i] = x
SyscallEntry(T, name) ==
    LET named == { i \in 1..Len(T) : InSeq(T[i].syscalls, name) }
        dflt  == { i \in 1..Len(T) : InSeq(T[i].syscalls, "*") }
    IN  IF named # {} THEN CHOOSE i \in named : \A j \in named : i <= j
        ELSE IF dflt # {} THEN CHOOSE i \in dflt : \A j \in dflt : i <= j
        ELSE 0

\* several entries may name a record type: the last one, in table order, all of whose
\* has_fields the event's Data has (an entry without has_fields always qualifies); a record
\* type named by a single entry takes it unconditionally
RecordEntry(T, e) ==
    LET named == { i \in 1..Len(T) : InSeq(T[i].record_types, e.type) }
        ok(i) == \A j \in 1..Len(T[i].has_fields) : Has(e.data, T[i].has_fields[j])
        qual == { i \in named : ok(i) }
    IN  IF Cardinality(named) = 1 THEN CHOOSE i \in named : TRUE
        ELSE IF qual # {} THEN CHOOSE i \in qual : \A j \in qual : i >= j
        ELSE 0

SysEntryOf(T, e) == IF Has(e.data, "syscall") THEN SyscallEntry(T, e.data["syscall"]) ELSE 0
Selected(T, e) == IF e.type = "SYSCALL" THEN SysEntryOf(T, e) ELSE RecordEntry(T, e)

\* ---- the PATH record the file summary mirrors ----------------------------------------------------
SkipTypes == { "PARENT", "UNKNOWN" }
NameType(p) == IF Has(p, "nametype") THEN p["nametype"] ELSE ""
PathIndex(paths, hint) ==      \* 1-based
    LET start == IF Len(paths) > hint THEN hint + 1 ELSE 1
        good == { i \in start..Len(paths) : NameType(paths[i]) \notin SkipTypes }
    IN  IF good # {} THEN CHOOSE i \in good : \A j \in good : i <= j ELSE start

\* ---- what the entry makes of the event -------------------------------------------------------
\* interp: the harness' word on whether exe (or, without exe, comm) begins with /usr/bin/python,
\* /usr/bin/sh, /usr/bin/bash or /usr/bin/perl (strings are opaque here)
HowDefault(e, interp) ==
    IF Has(e.data, "exe") THEN (IF interp /\ Has(e.data, "comm") THEN e.data["comm"] ELSE e.data["exe"])
    ELSE IF Has(e.data, "comm") THEN e.data["comm"]
    ELSE ""

Unset == { "", "unset", "4294967295", "-1" }
\* ECSEntityData.set: an unset value resets the entity; a number is an id, anything else a name
SetEntity(ent, v, numeric) ==
    IF v \in Unset THEN [id |-> "unset", name |-> ""]
    ELSE IF numeric THEN [ent EXCEPT !.id = v] ELSE [ent EXCEPT !.name = v]

Entity0 == [id |-> "", name |-> ""]
Ecs0 == [user |-> Entity0, effective |-> Entity0, target |-> Entity0, changes |-> Entity0, group |-> Entity0]
FieldOfTarget(t) == CASE t = "user" -> "user" [] t = "user.effective" -> "effective" [] t = "user.target" -> "target"
                      [] t = "user.changes" -> "changes" [] OTHER -> "group"

Expected(T, e, n, sys, interp) ==
    LET N == T[n]
        extra == sys # 0 /\ sys # n
        sp == FirstFound(e, N.subject_primary, 1)
        ss == FirstFound(e, N.subject_secondary, 1)
        op == FirstFound(e, N.object_primary, 1)
        os == FirstFound(e, N.object_secondary, 1)
        hw == FirstFound(e, N.how, 1)
        ip == IF e.src_preset THEN << FALSE, "", "" >> ELSE FirstInData(e, N.source_ip, 1)
        fileObj == N.object_what \in { "file", "filesystem" } /\ Len(e.paths) > 0
        sockObj == N.object_what = "socket"
        path == IF fileObj THEN e.paths[PathIndex(e.paths, N.object_path_index)] ELSE << >>
        actorP == IF sp[1] THEN sp[2] ELSE IF Has(e.ids, "auid") THEN e.ids["auid"] ELSE ""
        actorS == IF ss[1] THEN ss[2] ELSE IF Has(e.ids, "uid") THEN e.ids["uid"] ELSE ""
        objP == IF op[1] THEN op[2]
                ELSE IF fileObj /\ Has(path, "name") THEN path["name"]
                ELSE IF sockObj /\ Has(e.data, "socket_addr") THEN e.data["socket_addr"]
                ELSE IF sockObj /\ Has(e.data, "socket_path") THEN e.data["socket_path"]
                ELSE ""
        objS == IF os[1] THEN os[2] ELSE IF sockObj /\ Has(e.data, "socket_port") THEN e.data["socket_port"] ELSE ""
    IN  [ action |-> N.action,
          kind |-> N.kind,
          category |-> N.category \o (IF extra THEN T[sys].category ELSE << >>),
          etype |-> N.etype \o (IF extra THEN T[sys].etype ELSE << >>),
          outcome |-> IF extra /\ e.result = "fail" THEN "failure" ELSE "",
          object_what |-> N.object_what, file_object |-> fileObj,
          how |-> IF hw[1] THEN hw[2] ELSE HowDefault(e, interp),
          source_set |-> ip[1], source_ip |-> ip[2], source_key |-> ip[3],
          warn |-> [ subjP |-> Len(N.subject_primary) > 0 /\ ~sp[1], subjS |-> Len(N.subject_secondary) > 0 /\ ~ss[1],
                     objP |-> Len(N.object_primary) > 0 /\ ~op[1], objS |-> Len(N.object_secondary) > 0 /\ ~os[1],
                     how |-> Len(N.how) > 0 /\ ~hw[1], srcip |-> ~e.src_preset /\ Len(N.source_ip) > 0 /\ ~ip[1] ],
          \* data as the mappings see it: the source key has been taken out
          dataM |-> IF ip[1] THEN Without(e.data, { ip[3] }) ELSE e.data,
          actorP |-> actorP, actorS |-> actorS, objP |-> objP, objS |-> objS ]

\* from: [dict ("field" | "data" | "uid"), key]
MapFrom(x, e, from) ==
    IF from.dict = "field" THEN
        (CASE from.key = "subject.primary" -> x.actorP [] from.key = "subject.secondary" -> x.actorS
           [] from.key = "object.primary" -> x.objP [] OTHER -> x.objS)
    ELSE IF from.dict = "data" THEN (IF Has(x.dataM, from.key) THEN x.dataM[from.key] ELSE "")
    ELSE (IF Has(e.ids, from.key) THEN e.ids[from.key] ELSE "")

RECURSIVE ApplyMappings(_, _, _, _, _, _)
ApplyMappings(ecs, maps, i, x, e, numerics) ==
    IF i > Len(maps) THEN ecs
    ELSE LET v == MapFrom(x, e, maps[i].from)
             f == FieldOfTarget(maps[i].to)
         IN  ApplyMappings([ecs EXCEPT ![f] = SetEntity(@, v, v \in numerics)], maps, i + 1, x, e, numerics)

\* ---- judging one event -----------------------------------------------------------------------------
NFlag(w) == [prop |-> "X-NORMALIZE", why |-> w]

\* o: [recs, interp, numerics (the values that parse as unsigned decimal numbers), data_final,
\*     got: [action, kind, category, etype, outcome, actor_primary, actor_secondary, object_type, object_primary,
\*           object_secondary, how, has_source, source_ip, ecs: [user, effective, target, changes, group],
\*           warn: [nonorm, subjP, subjS, objP, objS, how, srcip]]]
JudgeEvent(T, o) ==
    LET e == BuildEvent(o.recs)
        n == Selected(T, e)
        sys == SysEntryOf(T, e)
        g == o.got
        nums == { o.numerics[i] : i \in 1..Len(o.numerics) }
    IN  IF n = 0 THEN
            (IF ~g.warn.nonorm THEN << NFlag("no table entry applies to the event but no warning says so") >> ELSE << >>)
            \o (IF g.action # "" THEN << NFlag("an action was set although no table entry applies") >> ELSE << >>)
        ELSE
        LET x == Expected(T, e, n, sys, o.interp)
            ecs == ApplyMappings(Ecs0, T[n].mappings, 1, x, e, nums)
        IN  (IF g.warn.nonorm THEN << NFlag("'no normalization found' although a table entry applies") >> ELSE << >>)
            \o (IF g.action # x.action THEN << NFlag("action is not the selected entry's") >> ELSE << >>)
            \o (IF g.kind # x.kind \/ g.category # x.category \/ g.etype # x.etype
                THEN << NFlag("ECS kind/category/type are not the entry's (followed by the syscall entry's for a non-SYSCALL event)") >> ELSE << >>)
            \o (IF g.outcome # x.outcome THEN << NFlag("ECS outcome: failure exactly for a failed syscall behind a non-SYSCALL event") >> ELSE << >>)
            \o (IF g.actor_primary # x.actorP \/ g.actor_secondary # x.actorS
                THEN << NFlag("actor is not the first present field of the entry's subject lists (or the auid/uid default)") >> ELSE << >>)
            \o (IF ~x.file_object /\ g.object_type # x.object_what THEN << NFlag("object type is not the entry's object_what") >> ELSE << >>)
            \o (IF g.object_primary # x.objP \/ g.object_secondary # x.objS
                THEN << NFlag("object is not the first present field of the entry's object lists (or the file/socket default)") >> ELSE << >>)
            \o (IF g.how # x.how THEN << NFlag("how is not the first present field of the entry's list (or the exe/comm default)") >> ELSE << >>)
            \o (IF x.source_set /\ (~g.has_source \/ g.source_ip # x.source_ip) THEN << NFlag("source address is not the entry's source_ip field") >> ELSE << >>)
            \o (IF x.source_set /\ Has(o.data_final, x.source_key) THEN << NFlag("the source_ip field was not moved out of Data") >> ELSE << >>)
            \o (IF g.ecs # ecs THEN << NFlag("ECS user/group fields are not what the entry's mappings produce") >> ELSE << >>)
            \o (IF g.warn.subjP # x.warn.subjP \/ g.warn.subjS # x.warn.subjS \/ g.warn.objP # x.warn.objP \/ g.warn.objS # x.warn.objS
                   \/ g.warn.how # x.warn.how \/ g.warn.srcip # x.warn.srcip
                THEN << NFlag("a warning about fields that were not found is missing or unfounded") >> ELSE << >>)
=============================================================================
