---------------------------- MODULE NormalizeTrace ----------------------------
(* Judges ndjson traces of the real coalescer against Normalize.tla.  The    *)
(* "norm" records (the table, in file order) come first and accumulate; each *)
(* "nev" record is one event.                                                 *)
EXTENDS Integers, Sequences, TLC, Json, IOUtils

NZ == INSTANCE Normalize
Trace == ndJsonDeserialize(IOEnv.TRACE_FILE)

VARIABLES l, table, flags
vars == << l, table, flags >>
Init == l = 1 /\ table = << >> /\ flags = << >> /\ TLCSet(1, 1)

Report(fl, line, t) ==
    \A i \in 1..Len(fl) : PrintT("FLAG " \o ToJson([prop |-> fl[i].prop, why |-> fl[i].why, line |-> line, trace |-> t]))

Next ==
    /\ l <= Len(Trace)
    /\ LET r == Trace[l] IN
         IF r.k = "norm" THEN table' = Append(table, r) /\ flags' = << >>
         ELSE IF r.k = "nev" THEN table' = table /\ flags' = NZ!JudgeEvent(table, r) /\ Report(flags', l, r.trace)
         ELSE table' = table /\ flags' = << >>
    /\ l' = l + 1
    /\ TLCSet(1, l + 1)

Spec == Init /\ [][Next]_vars
AllConsumed == TLCGet(1) = Len(Trace) + 1
=============================================================================
