--------------------------- MODULE PipelineMonitor ---------------------------
(* End-to-end property of the cmd/auparse pipeline                          *)
(*     log line -> ParseLogLine -> Reassembler -> CoalesceMessages          *)
(* stated on what goes in (lines) and what comes out (groups / events):     *)
(*   - a line whose header does not parse contributes nothing;              *)
(*   - every other non-EOE line ends up in exactly one output group, all of *)
(*     whose records carry the line's sequence number;                      *)
(*   - a group becomes an event whose sequence and record type are those of *)
(*     its first record, except that a multi-record group without a SYSCALL *)
(*     record is refused by the coalescer;                                  *)
(*   - after Close nothing is left behind.                                  *)
(* This lifts C01 (reassembly) and C09's identity/refusal clauses to the    *)
(* composition; it is not one of the listed properties ("PIPE").            *)
EXTENDS Integers, Sequences, FiniteSets, TLC

AUDIT_SYSCALL == 1300
AUDIT_EOE == 1320

PFlag(w) == [prop |-> "PIPE", why |-> w]
EmptyFn == [x \in {} |-> 0]
PutFn(f, k, v) == [x \in DOMAIN f \cup {k} |-> IF x = k THEN v ELSE f[x]]

PInit == [ lines |-> EmptyFn,   \* id -> [ok, off, type]
           seen |-> {},         \* ids that have appeared in an output group
           flags |-> << >> ]

PStep(m0, r) ==
    LET m == [m0 EXCEPT !.flags = << >>] IN
    IF r.k = "line" THEN [m EXCEPT !.lines = PutFn(@, r.id, [ok |-> r.ok, off |-> r.off, type |-> r.type])]
    ELSE IF r.k = "out" THEN
        LET ids == r.ids
            known == \A i \in 1..Len(ids) : ids[i] \in DOMAIN m.lines /\ m.lines[ids[i]].ok
            fresh == \A i \in 1..Len(ids) : ids[i] \notin m.seen
            offs == { m.lines[ids[i]].off : i \in { j \in 1..Len(ids) : ids[j] \in DOMAIN m.lines } }
            types == [i \in 1..Len(ids) |-> IF ids[i] \in DOMAIN m.lines THEN m.lines[ids[i]].type ELSE 0]
            hasSyscall == \E i \in 1..Len(ids) : types[i] = AUDIT_SYSCALL
            mustRefuse == Len(ids) > 1 /\ ~hasSyscall
        IN  [m EXCEPT
               !.flags =
                 IF Len(ids) = 0 THEN << PFlag("an empty group reached the coalescer") >>
                 ELSE IF ~known THEN << PFlag("a group holds a record that no well-formed line produced") >>
                 ELSE IF ~fresh THEN << PFlag("a line appears in two output groups") >>
                 ELSE IF Cardinality(offs) # 1 THEN << PFlag("an output group mixes sequence numbers") >>
                 ELSE IF mustRefuse /\ r.ret # "err" THEN << PFlag("a multi-record group without SYSCALL became an event") >>
                 ELSE IF ~mustRefuse /\ r.ret # "event" THEN << PFlag("a well-formed group was refused by the coalescer") >>
                 ELSE IF r.ret = "event" /\ (r.ev_off # (CHOOSE x \in offs : TRUE) \/ r.ev_type # types[1])
                      THEN << PFlag("the event's sequence or record type are not those of its group's first record") >>
                 ELSE << >>,
               !.seen = @ \cup { ids[i] : i \in 1..Len(ids) }]
    ELSE IF r.k = "closed" THEN
        LET owed == { i \in DOMAIN m.lines : m.lines[i].ok /\ m.lines[i].type # AUDIT_EOE } IN
        [m EXCEPT !.flags = IF owed \ m.seen # {} THEN << PFlag("a well-formed line never reached the output although the pipeline was closed") >> ELSE << >>]
    ELSE m
=============================================================================
