------------------------------ MODULE Pipeline ------------------------------
(* The cmd/auparse pipeline as a composition of the Reassembler model with  *)
(* an abstract parser (a line either has a well-formed header or not) and   *)
(* an abstract coalescer (refuses multi-record groups without SYSCALL).     *)
(* A ticker may run Maintain between any two lines; Close ends the run.     *)
EXTENDS Reassembler, Json

CONSTANTS MaxLines

VARIABLES pm, nlines, done, ticked

PM == INSTANCE PipelineMonitor

pvars == << mvars, rec, pm, nlines, done, ticked >>

\* feed the outputs of one Reassembler call to the coalescer and to the monitor
RECURSIVE Deliver(_, _, _)
TypeOf(m, id) == m.lines[id].type
Coalesced(m, ids) ==
    LET multi == Len(ids) > 1
        hasSys == \E i \in 1..Len(ids) : TypeOf(m, ids[i]) = 1300
    IN  [k |-> "out", ids |-> ids, ret |-> IF multi /\ ~hasSys THEN "err" ELSE "event",
         ev_off |-> m.lines[ids[1]].off, ev_type |-> TypeOf(m, ids[1])]
Deliver(m, cbs, i) ==
    IF i > Len(cbs) THEN m
    ELSE IF cbs[i].k # "ev" THEN Deliver(m, cbs, i + 1)
    ELSE Deliver(PM!PStep(m, Coalesced(m, cbs[i].ids)), cbs, i + 1)

\* all flags raised while delivering
RECURSIVE DeliverFlags(_, _, _, _)
DeliverFlags(m, cbs, i, acc) ==
    IF i > Len(cbs) THEN acc
    ELSE IF cbs[i].k # "ev" THEN DeliverFlags(m, cbs, i + 1, acc)
    ELSE LET m1 == PM!PStep(m, Coalesced(m, cbs[i].ids)) IN DeliverFlags(m1, cbs, i + 1, acc \o m1.flags)

PInit0 ==
    /\ Init /\ pm = PM!PInit /\ nlines = 0 /\ done = FALSE /\ ticked = FALSE

Line(ok, o, t) ==
    /\ ~done /\ nlines < MaxLines
    /\ IF ok THEN Push(o, t) ELSE PushNil
    /\ LET id == nops + 1
           m1 == PM!PStep(pm, [k |-> "line", id |-> id, ok |-> ok, off |-> o, type |-> t])
       IN  pm' = [Deliver(m1, rec'.cbs, 1) EXCEPT !.flags = DeliverFlags(m1, rec'.cbs, 1, << >>)]
    /\ nlines' = nlines + 1
    /\ ticked' = FALSE
    /\ UNCHANGED done

\* the ticker runs at most once between two lines (a second run changes nothing)
Ticker ==
    /\ ~done /\ ~ticked
    /\ Maintain
    /\ pm' = [Deliver(pm, rec'.cbs, 1) EXCEPT !.flags = DeliverFlags(pm, rec'.cbs, 1, << >>)]
    /\ ticked' = TRUE
    /\ UNCHANGED << nlines, done >>

Finish ==
    /\ ~done
    /\ Close
    /\ LET m1 == Deliver(pm, rec'.cbs, 1)
           f1 == DeliverFlags(pm, rec'.cbs, 1, << >>)
           m2 == PM!PStep(m1, [k |-> "closed"])
       IN  pm' = [m2 EXCEPT !.flags = f1 \o m2.flags]
    /\ done' = TRUE
    /\ UNCHANGED << nlines, ticked >>

PNext ==
    \/ \E ok \in BOOLEAN, o \in 0..(Width - 1), t \in Types : Line(ok, o, t)
    \/ Ticker
    \/ Finish

PSpec == PInit0 /\ [][PNext]_pvars

NoPipeFlags == Len(pm.flags) = 0
=============================================================================
