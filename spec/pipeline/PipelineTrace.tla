---------------------------- MODULE PipelineTrace ----------------------------
EXTENDS Integers, Sequences, TLC, Json, IOUtils

PM == INSTANCE PipelineMonitor
Trace == ndJsonDeserialize(IOEnv.TRACE_FILE)

VARIABLES l, mon, tr
vars == << l, mon, tr >>
Init == l = 1 /\ mon = PM!PInit /\ tr = 0 /\ TLCSet(1, 1)

Report(fl, line, t) ==
    \A i \in 1..Len(fl) : PrintT("FLAG " \o ToJson([prop |-> fl[i].prop, why |-> fl[i].why, line |-> line, trace |-> t]))

Next ==
    /\ l <= Len(Trace)
    /\ LET r == Trace[l] IN
         IF r.k = "reset" THEN mon' = PM!PInit /\ tr' = r.trace
         ELSE mon' = PM!PStep(mon, r) /\ tr' = tr
    /\ Report(mon'.flags, l, tr')
    /\ l' = l + 1
    /\ TLCSet(1, l + 1)

Spec == Init /\ [][Next]_vars
AllConsumed == TLCGet(1) = Len(Trace) + 1
=============================================================================
