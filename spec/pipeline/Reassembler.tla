----------------------------- MODULE Reassembler -----------------------------
(* Sequential model of libaudit.Reassembler (reassembler.go), one action    *)
(* per API call, each composed of the code's critical sections:             *)
(*    PushMessage = Put ; CleanUp ; callback                                *)
(*    Maintain    = closed? ; CleanUp ; callback                            *)
(*    Close       = CAS(closed) ; Clear ; callback                          *)
(* The interleaving of those sections between goroutines is the subject of  *)
(* ReassemblerConc.tla; here a single goroutine drives the object.          *)
(*                                                                          *)
(* Sequence numbers are uint32 in the code.  The model is parametric in the *)
(* modulus M and the sort range W (2^32 and 2^24-1 in the code) so that TLC *)
(* can explore windows that straddle the roll-over with small numbers; the  *)
(* comparator is the code's (sequenceNumSlice.Less).                        *)
EXTENDS Integers, Sequences, FiniteSets, FiniteSetsExt, TLC, Bytes

CONSTANTS
    M,            \* modulus of sequence numbers
    W,            \* maxSortRange
    Base,         \* sequence number of offset 0
    Width,        \* offsets 0..Width-1 are used
    MaxInFlight,  \* maxInFlight given to NewReassembler
    Timeout,      \* timeout in ticks; Inf for "never"
    Inf,          \* a number larger than any clock value
    Arith,        \* "serial" (intended loss arithmetic) | "legacy" (lastSeq>0 guard, uint32 subtraction)
    Types         \* record types the pushes draw from

VARIABLES
    buf,      \* sequence number -> [msgs, complete, expire]   (eventList.events)
    order,    \* sequence of sequence numbers, sorted by Less  (eventList.seqs)
    last,     \* eventList.lastSeq
    hasLast,  \* intended arithmetic only: a delivery has happened
    closed,   \* Reassembler.closed
    now,      \* clock, ticks
    nops,     \* number of API calls made (also the id source)
    rec       \* observation of the last API call (what a user could log)

mvars == << buf, order, last, hasLast, closed, now, nops >>

SN(o) == (Base + o) % M
OffsetOf(s) == (s - Base + M) % M

Abs(x) == IF x < 0 THEN -x ELSE x
\* sequenceNumSlice.Less
Less(a, b) == IF Abs(a - b) > W THEN a > b ELSE a < b

EmptyFn == [x \in {} |-> 0]
Drop(f, k) == [x \in DOMAIN f \ {k} |-> f[x]]
PutFn(f, k, v) == [x \in DOMAIN f \cup {k} |-> IF x = k THEN v ELSE f[x]]

EOE == 1320
Completing(t) == t = 1327 \/ t <= 1299 \/ t >= 2100

\* ---- eventList.Put -------------------------------------------------------
PutMsg(b, ord, id, s, t) ==
    IF t = EOE THEN
        [buf |-> IF s \in DOMAIN b THEN [b EXCEPT ![s].complete = TRUE] ELSE b, order |-> ord]
    ELSE IF s \in DOMAIN b THEN
        [buf |-> [b EXCEPT ![s].msgs = Append(@, id),
                           ![s].complete = @ \/ Completing(t)],
         order |-> ord]
    ELSE
        [buf |-> PutFn(b, s, [msgs |-> << id >>, complete |-> Completing(t),
                              expire |-> IF Timeout = Inf THEN Inf ELSE now + Timeout]),
         order |-> SortSeq(Append(ord, s), Less)]

\* ---- loss arithmetic -----------------------------------------------------
\* returns [lost, last, hasLast] after delivering sequence s
Advance(l, hl, s) ==
    IF Arith = "legacy" THEN
        [lost |-> IF l > 0 THEN (s - l - 1 + 2 * M) % M ELSE 0, last |-> s, hasLast |-> TRUE]
    ELSE IF ~hl THEN [lost |-> 0, last |-> s, hasLast |-> TRUE]
    ELSE LET d == (s - l + M) % M
         IN  IF d = 0 \/ d > M \div 2 THEN [lost |-> 0, last |-> l, hasLast |-> TRUE]
             ELSE [lost |-> d - 1, last |-> s, hasLast |-> TRUE]

\* ---- eventList.CleanUp / Clear -------------------------------------------
\* st: [buf, order, last, hasLast, ev (evicted groups), lost]
RECURSIVE Evict(_, _)
Evict(st, all) ==
    IF Len(st.order) = 0 THEN st
    ELSE LET s == Head(st.order)
             e == st.buf[s]
         IN  IF all \/ e.complete \/ Len(st.order) > MaxInFlight \/ now > e.expire THEN
                 LET a == Advance(st.last, st.hasLast, s)
                 IN  Evict([buf |-> Drop(st.buf, s), order |-> Tail(st.order),
                            last |-> a.last, hasLast |-> a.hasLast,
                            ev |-> Append(st.ev, e.msgs), lost |-> st.lost + a.lost], all)
             ELSE st

\* ---- callback ---------------------------------------------------------------
Cbs(st) == [i \in 1..Len(st.ev) |-> [k |-> "ev", ids |-> st.ev[i], n |-> << >>]]
           \o (IF st.lost > 0 THEN << [k |-> "lost", ids |-> << >>, n |-> DigitsOf(st.lost)] >> ELSE << >>)

Rec(op, id, off, t, cbs, ret) ==
    [op |-> op, id |-> id, off |-> off, type |-> t, t0 |-> now, t1 |-> now, cbs |-> cbs, ret |-> ret]

Init ==
    /\ buf = EmptyFn /\ order = << >> /\ last = 0 /\ hasLast = FALSE
    /\ closed = FALSE /\ now = 0 /\ nops = 0
    /\ rec = Rec("init", 0, 0, 0, << >>, "ok")

Push(o, t) ==
    LET id == nops + 1
        p  == PutMsg(buf, order, id, SN(o), t)
        st == Evict([buf |-> p.buf, order |-> p.order, last |-> last, hasLast |-> hasLast,
                     ev |-> << >>, lost |-> 0], FALSE)
    IN  /\ buf' = st.buf /\ order' = st.order /\ last' = st.last /\ hasLast' = st.hasLast
        /\ nops' = id
        /\ rec' = Rec("push", id, o, t, Cbs(st), "ok")
        /\ UNCHANGED << closed, now >>

PushNil ==
    /\ nops' = nops + 1
    /\ rec' = Rec("pushnil", nops + 1, 0, 0, << >>, "ok")
    /\ UNCHANGED << buf, order, last, hasLast, closed, now >>

Maintain ==
    /\ nops' = nops + 1
    /\ IF closed THEN
            /\ rec' = Rec("maintain", nops + 1, 0, 0, << >>, "err")
            /\ UNCHANGED << buf, order, last, hasLast >>
       ELSE LET st == Evict([buf |-> buf, order |-> order, last |-> last, hasLast |-> hasLast,
                             ev |-> << >>, lost |-> 0], FALSE)
            IN  /\ buf' = st.buf /\ order' = st.order /\ last' = st.last /\ hasLast' = st.hasLast
                /\ rec' = Rec("maintain", nops + 1, 0, 0, Cbs(st), "ok")
    /\ UNCHANGED << closed, now >>

Close ==
    /\ nops' = nops + 1
    /\ IF closed THEN
            /\ rec' = Rec("close", nops + 1, 0, 0, << >>, "err")
            /\ UNCHANGED << buf, order, last, hasLast, closed >>
       ELSE LET st == Evict([buf |-> buf, order |-> order, last |-> last, hasLast |-> hasLast,
                             ev |-> << >>, lost |-> 0], TRUE)
            IN  /\ buf' = st.buf /\ order' = st.order /\ last' = st.last /\ hasLast' = st.hasLast
                /\ closed' = TRUE
                /\ rec' = Rec("close", nops + 1, 0, 0, Cbs(st), "ok")
    /\ UNCHANGED now

Tick ==
    /\ now' = now + 1
    /\ nops' = nops + 1
    /\ rec' = Rec("tick", nops + 1, 0, 0, << >>, "ok")
    /\ UNCHANGED << buf, order, last, hasLast, closed >>

\* ---- structural invariants of the model itself ---------------------------
OrderMatchesBuf == { order[i] : i \in 1..Len(order) } = DOMAIN buf /\ Len(order) = Cardinality(DOMAIN buf)
Sorted == \A i \in 1..(Len(order) - 1) : Less(order[i], order[i + 1])
\* the code's comparator agrees with window offsets on every pair of the window
ComparatorIsOffsetOrder ==
    \A a, b \in 0..(Width - 1) : a # b => (Less(SN(a), SN(b)) <=> a < b)

=============================================================================
