----------------------------- MODULE RuleMonitor -----------------------------
(* Per-record oracles of the rule family.                                   *)
(*   "build"  C06  an accepted rule's bytes equal Encode(abstract rule)     *)
(*   "round"  C07  decode -> text -> re-encode is the identity              *)
(*   "total"  C13  no panic / hang / runaway allocation; success => valid   *)
(*   "flags"  C14  token accounting (RuleFlags)                             *)
EXTENDS Integers, Sequences, FiniteSets, TLC, Bytes, UAPI, AuditRule, RuleFlags

RFlag(p, w) == [prop |-> p, why |-> w]

\* index of the first differing byte (0 if one is a prefix of the other)
FirstDiff(a, b) ==
    LET n == Min2(Len(a), Len(b))
        d == { i \in 1..n : a[i] # b[i] }
    IN  IF d = {} THEN 0 ELSE CHOOSE i \in d : \A j \in d : i <= j

WhereInRule(i) ==
    IF i = 0 THEN "length"
    ELSE IF i <= 4 THEN "flags" ELSE IF i <= 8 THEN "action" ELSE IF i <= 12 THEN "field_count"
    ELSE IF i <= 268 THEN "mask" ELSE IF i <= 524 THEN "fields" ELSE IF i <= 780 THEN "values"
    ELSE IF i <= 1036 THEN "fieldflags" ELSE IF i <= 1040 THEN "buflen" ELSE "buffer"

JudgeBuild(o) ==
    IF o.ret = "panic" THEN << RFlag("C13", "flags.Parse or rule.Build panicked") >>
    ELSE IF o.ret # "ok" THEN << >>
    ELSE IF ~Encodable(o.ast) THEN << RFlag("C06", "Build accepted a rule that struct audit_rule_data cannot express") >>
    ELSE LET e == Encode(o.ast) IN
         IF o.wire = e THEN << >>
         ELSE << RFlag("C06", "built bytes differ from struct audit_rule_data for the rule asked for, first difference in " \o WhereInRule(FirstDiff(o.wire, e))) >>

\* o: [wire, ok1, text, ok2, ok3, wire2, ok4, text2]
JudgeRound(o) ==
    IF o.panic THEN << RFlag("C13", "panic during decode / re-encode") >>
    ELSE IF ~o.ok1 THEN << RFlag("C07", "ToCommandLine failed on a rule that Build produced") >>
    ELSE IF ~o.ok2 THEN << RFlag("C07", "flags.Parse rejects the text ToCommandLine printed") >>
    ELSE IF ~o.ok3 THEN << RFlag("C07", "Build rejects the rule parsed from the text ToCommandLine printed") >>
    ELSE IF o.wire2 # o.wire THEN << RFlag("C07", "the printed text re-encodes to different wire data, first difference in " \o WhereInRule(FirstDiff(o.wire, o.wire2))) >>
    ELSE IF ~o.ok4 THEN << RFlag("C07", "ToCommandLine failed on the re-encoded rule") >>
    ELSE IF o.text2 # o.text THEN << RFlag("C07", "ToCommandLine of the re-encoded rule prints different text") >>
    ELSE << >>

\* o: [fn, ret, alloc_kib, inlen, wire]
AllocBoundKiB(inlen) == 1024 + (64 * inlen) \div 1024 + 64
JudgeTotal(o) ==
    (IF o.ret \in {"panic", "hang", "crash"} THEN << RFlag("C13", o.fn \o " did not return (" \o o.ret \o ")") >> ELSE << >>)
    \o (IF o.ret \in {"ok", "err"} /\ o.alloc_kib > AllocBoundKiB(o.inlen)
        THEN << RFlag("C13", o.fn \o " allocated in proportion to a number found in its input") >> ELSE << >>)
    \o (IF o.fn = "decode" /\ o.ret = "ok" /\ ~StructurallyValid(o.wire)
        THEN << RFlag("C13", "ToCommandLine succeeded on bytes that are not a structurally valid rule") >> ELSE << >>)

Judge(o) ==
    IF o.k = "build" THEN JudgeBuild(o)
    ELSE IF o.k = "round" THEN JudgeRound(o)
    ELSE IF o.k = "total" THEN JudgeTotal(o)
    ELSE IF o.k = "flags" THEN JudgeFlags(o)
    ELSE IF o.k = "kept" THEN
        \* the bytes Build returned are the caller's: they read the same after every later Build
        (IF o.changed > 0 THEN << RFlag("C06", "bytes returned by an earlier Build changed when later rules were built") >> ELSE << >>)
    ELSE << >>
=============================================================================
