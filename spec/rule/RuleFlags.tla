------------------------------ MODULE RuleFlags ------------------------------
(* Token accounting for auditctl-style rule lines (C14).  The argument list *)
(* is given (the harness shell-quotes it itself); nothing here parses       *)
(* characters beyond splitting at commas and locating the first operator.   *)
(* All strings are byte sequences.                                          *)
EXTENDS Integers, Sequences, FiniteSets, TLC, Bytes

Dash == 45
IsFlag(a) == Len(a) = 2 /\ a[1] = Dash
Letter(a) == a[2]
\* D=68 a=97 A=65 C=67 F=70 S=83 p=112 w=119 k=107
ValueFlags == { 97, 65, 67, 70, 83, 112, 119, 107 }

\* ---- walk the arguments --------------------------------------------------------
\* acc: [F (sequence of [t, arg]), S, K, P, W, a, A, D, junk, nW, na, nA]
Acc0 == [F |-> << >>, S |-> << >>, K |-> << >>, P |-> << >>, W |-> << >>, a |-> << >>, A |-> << >>,
         D |-> FALSE, junk |-> FALSE, nW |-> 0, na |-> 0, nA |-> 0, nP |-> 0]

RECURSIVE SplitComma(_, _, _)
SplitComma(s, i, cur) ==
    IF i > Len(s) THEN << cur >>
    ELSE IF s[i] = 44 THEN << cur >> \o SplitComma(s, i + 1, << >>)
    ELSE SplitComma(s, i + 1, Append(cur, s[i]))

RECURSIVE Walk(_, _, _)
Walk(args, i, acc) ==
    IF i > Len(args) THEN acc
    ELSE LET x == args[i] IN
         IF ~IsFlag(x) THEN [acc EXCEPT !.junk = TRUE]                 \* positional word: everything after it is unread
         ELSE IF Letter(x) = 68 THEN Walk(args, i + 1, [acc EXCEPT !.D = TRUE])
         ELSE IF Letter(x) \notin ValueFlags THEN [acc EXCEPT !.junk = TRUE]
         ELSE IF i = Len(args) THEN [acc EXCEPT !.junk = TRUE]         \* flag without its value
         ELSE LET v == args[i + 1]
                  c == Letter(x)
                  acc1 ==
                    IF c = 70 THEN [acc EXCEPT !.F = Append(@, [t |-> "F", arg |-> v])]
                    ELSE IF c = 67 THEN [acc EXCEPT !.F = Append(@, [t |-> "C", arg |-> v])]
                    ELSE IF c = 83 THEN [acc EXCEPT !.S = @ \o SplitComma(v, 1, << >>)]
                    ELSE IF c = 107 THEN [acc EXCEPT !.K = @ \o SplitComma(v, 1, << >>)]
                    ELSE IF c = 112 THEN [acc EXCEPT !.P = @ \o v, !.nP = @ + 1]
                    ELSE IF c = 119 THEN [acc EXCEPT !.W = v, !.nW = @ + 1]
                    ELSE IF c = 97 THEN [acc EXCEPT !.a = v, !.na = @ + 1]
                    ELSE [acc EXCEPT !.A = v, !.nA = @ + 1]
              IN  Walk(args, i + 2, acc1)

\* ---- operators -----------------------------------------------------------------------
\* < 60  > 62  = 61  ! 33  & 38
OpChars == { 60, 62, 61, 33, 38 }
Ops == { << 60, 61 >>, << 62, 61 >>, << 38, 61 >>, << 33, 61 >>, << 61 >>, << 60 >>, << 62 >>, << 38 >> }
CmpOps == { << 61 >>, << 33, 61 >> }

StartsAt(s, pos, w) == pos + Len(w) - 1 <= Len(s) /\ SubSeq(s, pos, pos + Len(w) - 1) = w
\* position of the first operator character
FirstOpPos(s) == IF \E i \in 1..Len(s) : s[i] \in OpChars
                 THEN CHOOSE i \in 1..Len(s) : s[i] \in OpChars /\ \A j \in 1..(i - 1) : s[j] \notin OpChars
                 ELSE 0
\* the longest operator that starts at pos
LongestOpAt(s, pos) ==
    LET two == { o \in Ops : Len(o) = 2 /\ StartsAt(s, pos, o) }
        one == { o \in Ops : Len(o) = 1 /\ StartsAt(s, pos, o) }
    IN  IF two # {} THEN CHOOSE o \in two : TRUE ELSE IF one # {} THEN CHOOSE o \in one : TRUE ELSE << >>

\* a filter reflects its argument completely
FilterReflects(f, spec) ==
    LET arg == spec.arg
        p   == FirstOpPos(arg)
    IN  /\ f.t = spec.t
        /\ f.lhs \o f.op \o f.rhs = arg
        /\ p > 1 /\ Len(f.lhs) = p - 1
        /\ f.op = LongestOpAt(arg, p)
        /\ Len(f.rhs) > 0
        /\ (spec.t = "C" => f.op \in CmpOps)

\* ---- -a / -A values --------------------------------------------------------------------
Lists == { << 116, 97, 115, 107 >>, << 101, 120, 105, 116 >>, << 117, 115, 101, 114 >>, << 101, 120, 99, 108, 117, 100, 101 >> }
Actions == { << 110, 101, 118, 101, 114 >>, << 97, 108, 119, 97, 121, 115 >> }
AddReflects(v, list, action) ==
    LET parts == SplitComma(v, 1, << >>) IN
    /\ Len(parts) = 2
    /\ \/ (parts[1] = list /\ parts[2] = action)
       \/ (parts[2] = list /\ parts[1] = action)
    /\ list \in Lists /\ action \in Actions

\* r w x a -> rule.AccessType 1 2 3 4
Access(c) == CASE c = 114 -> 1 [] c = 119 -> 2 [] c = 120 -> 3 [] c = 97 -> 4 [] OTHER -> 0

Flag(w) == [prop |-> "C14", why |-> w]

\* o: [args, ret ("rule" | "err" | "panic"), rule]
\* rule: [type ("delete"|"watch"|"append"|"prepend"), list, action, filters, syscalls, keys, path, perms]
JudgeFlags(o) ==
    IF o.ret = "panic" THEN << [prop |-> "C13", why |-> "flags.Parse panicked"] >>
    ELSE IF o.ret # "rule" THEN << >>
    ELSE
    LET acc == Walk(o.args, 1, Acc0)
        r == o.rule
        del == IF acc.D THEN 1 ELSE 0
        wat == IF acc.nW > 0 \/ acc.nP > 0 THEN 1 ELSE 0
        sys == IF acc.na > 0 \/ acc.nA > 0 \/ Len(acc.F) > 0 \/ Len(acc.S) > 0 THEN 1 ELSE 0
    IN  IF acc.junk THEN << Flag("a positional word, or arguments after it, were silently ignored") >>
        ELSE IF del + wat + sys # 1 THEN << Flag("a line mixing (or lacking) delete, watch and syscall-rule flags was accepted") >>
        ELSE IF sys = 1 /\ ((acc.na > 0) = (acc.nA > 0)) THEN << Flag("a syscall rule with both or neither of -a/-A was accepted") >>
        ELSE IF acc.na > 1 \/ acc.nA > 1 \/ acc.nW > 1
             THEN << Flag("a repeated -w/-a/-A was accepted although a rule can reflect only one of them") >>
        ELSE
          (IF r.keys # acc.K THEN << Flag("the -k arguments are not reflected in full") >> ELSE << >>)
          \o (IF del = 1 THEN (IF r.type # "delete" THEN << Flag("-D did not produce a delete rule") >> ELSE << >>)
              ELSE IF wat = 1 THEN
                   (IF r.type # "watch" THEN << Flag("-w/-p did not produce a watch rule") >> ELSE << >>)
                   \o (IF r.path # acc.W THEN << Flag("the -w argument is not reflected in full") >> ELSE << >>)
                   \o (IF r.perms # [i \in 1..Len(acc.P) |-> Access(acc.P[i])] THEN << Flag("the -p argument is not reflected in full") >> ELSE << >>)
              ELSE
                   (IF r.type # (IF acc.na > 0 THEN "append" ELSE "prepend") THEN << Flag("-a/-A not reflected in the rule type") >> ELSE << >>)
                   \o (IF ~AddReflects(IF acc.na > 0 THEN acc.a ELSE acc.A, r.list, r.action)
                       THEN << Flag("the -a/-A argument is not reflected in full") >> ELSE << >>)
                   \o (IF r.syscalls # acc.S THEN << Flag("the -S arguments are not reflected in full") >> ELSE << >>)
                   \o (IF Len(r.filters) # Len(acc.F) THEN << Flag("the number of filters differs from the number of -F/-C arguments") >>
                       ELSE IF \E i \in 1..Len(acc.F) : ~FilterReflects(r.filters[i], acc.F[i])
                            THEN << Flag("a -F/-C argument is not reflected completely (field, operator and value must be the whole text before, at and after the operator)") >>
                       ELSE << >>))
=============================================================================
