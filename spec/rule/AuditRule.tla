------------------------------ MODULE AuditRule ------------------------------
(* The kernel's struct audit_rule_data as an executable definition:        *)
(* Encode(rule) is the byte string a correct encoder must produce for an   *)
(* abstract rule (what the user asked for), StructurallyValid(bytes) is    *)
(* what a decoder may accept.  Little endian.                              *)
(*                                                                         *)
(* Abstract rule (as logged by the harness, all fields always present):    *)
(*   kind     "syscall" | "watch"                                          *)
(*   list, action                      names                                *)
(*   items    sequence of [t, lhs, op, vk, num, str, name, rhs, neg]        *)
(*              t  = "F" (field op value) | "C" (field op field)            *)
(*              vk = "num" (num: limbs) | "str" (str: bytes) | "errno" |    *)
(*                   "msgname" | "arch" | "perm" (str: letters) | "ftype"   *)
(*   syscalls [all, nums, names (sequence of [arch, name])]                 *)
(*   keys     sequence of byte strings                                      *)
(*   wpath, wtype ("path" | "dir"), wperm (letters)   for watches           *)
EXTENDS Integers, Sequences, FiniteSets, TLC, Bytes, UAPI

\* ---- the fields of a rule, in order ----------------------------------------------
RECURSIVE JoinKeys(_, _)
JoinKeys(keys, i) ==
    IF i > Len(keys) THEN << >>
    ELSE IF i = Len(keys) THEN keys[i]
    ELSE keys[i] \o << AUDIT_KEY_SEPARATOR >> \o JoinKeys(keys, i + 1)

StrItem(lhs, s) == [t |-> "F", lhs |-> lhs, op |-> "=", vk |-> "str", num |-> LimbsZero, str |-> s, name |-> "", rhs |-> "", neg |-> FALSE, big |-> FALSE]
PermItem(letters) == [t |-> "F", lhs |-> "perm", op |-> "=", vk |-> "perm", num |-> LimbsZero, str |-> letters, name |-> "", rhs |-> "", neg |-> FALSE, big |-> FALSE]

\* auditctl adds the key field only when the joined key is not empty (`if (key[0])`): -k "" alone names no key
KeyItems(keys) == IF Len(keys) = 0 \/ Len(JoinKeys(keys, 1)) = 0 THEN << >> ELSE << StrItem("key", JoinKeys(keys, 1)) >>

AllItems(r) ==
    IF r.kind = "watch"
    THEN << StrItem(r.wtype, r.wpath), PermItem(r.wperm) >> \o KeyItems(r.keys)
    ELSE r.items \o KeyItems(r.keys)

ItemField(it) == IF it.t = "C" THEN AUDIT_FIELD_COMPARE ELSE FieldCode(it.lhs)

ItemValue(it) ==
    IF it.t = "C" THEN Limbs(CompareCode(it.lhs, it.rhs))
    ELSE CASE it.vk = "num"     -> it.num
           [] it.vk = "str"     -> Limbs(Len(it.str))
           [] it.vk = "errno"   -> IF it.neg THEN LimbsNeg(Limbs(Errno(it.name))) ELSE Limbs(Errno(it.name))
           [] it.vk = "msgname" -> Limbs(MsgType(it.name))
           [] it.vk = "arch"    -> ArchValue(it.name)
           [] it.vk = "perm"    -> Limbs(PermBits(it.str))
           [] it.vk = "ftype"   -> Limbs(FileType(it.name))

IsStringItem(it) == it.t = "F" /\ it.vk = "str"

RECURSIVE StringsOf(_, _)
StringsOf(items, i) ==
    IF i > Len(items) THEN << >>
    ELSE (IF IsStringItem(items[i]) THEN items[i].str ELSE << >>) \o StringsOf(items, i + 1)

\* ---- the syscall mask -----------------------------------------------------------------
SyscallNums(sc) == { sc.nums[i] : i \in 1..Len(sc.nums) }
                   \cup { SyscallNr(sc.names[i].arch, sc.names[i].name) : i \in 1..Len(sc.names) }

Pow2(k) == CASE k = 0 -> 1 [] k = 1 -> 2 [] k = 2 -> 4 [] k = 3 -> 8 [] k = 4 -> 16 [] k = 5 -> 32 [] k = 6 -> 64
             [] k = 7 -> 128 [] k = 8 -> 256 [] k = 9 -> 512 [] k = 10 -> 1024 [] k = 11 -> 2048 [] k = 12 -> 4096
             [] k = 13 -> 8192 [] k = 14 -> 16384 [] k = 15 -> 32768

RECURSIVE SumPow(_)
SumPow(S) == IF S = {} THEN 0 ELSE LET x == CHOOSE y \in S : TRUE IN Pow2(x) + SumPow(S \ {x})

\* word j (0..63) of the mask
MaskWord(sc, nums, j) ==
    IF sc.all THEN (IF j < 63 THEN [hi |-> 65535, lo |-> 65535] ELSE [hi |-> 0, lo |-> 65535])
    ELSE [lo |-> SumPow({ n - 32 * j : n \in { m \in nums : m >= 32 * j /\ m < 32 * j + 16 } }),
          hi |-> SumPow({ n - 32 * j - 16 : n \in { m \in nums : m >= 32 * j + 16 /\ m < 32 * j + 32 } })]

\* ---- Encode -------------------------------------------------------------------------------
HeaderWord(r, items, nums, buflen, w) ==      \* w in 1..260, as limbs
    IF w = 1 THEN Limbs(ListCode(IF r.kind = "watch" THEN "exit" ELSE r.list))
    ELSE IF w = 2 THEN Limbs(ActionCode(IF r.kind = "watch" THEN "always" ELSE r.action))
    ELSE IF w = 3 THEN Limbs(Len(items))
    ELSE IF w <= 67 THEN MaskWord(IF r.kind = "watch" THEN [all |-> TRUE, nums |-> << >>, names |-> << >>] ELSE r.syscalls, nums, w - 4)
    ELSE IF w <= 131 THEN (IF w - 67 <= Len(items) THEN Limbs(ItemField(items[w - 67])) ELSE LimbsZero)
    ELSE IF w <= 195 THEN (IF w - 131 <= Len(items) THEN ItemValue(items[w - 131]) ELSE LimbsZero)
    ELSE IF w <= 259 THEN (IF w - 195 <= Len(items) THEN OpCode(items[w - 195].op) ELSE LimbsZero)
    ELSE Limbs(buflen)

Encode(r) ==
    LET items == AllItems(r)
        buf   == StringsOf(items, 1)
        nums  == IF r.kind = "watch" \/ r.syscalls.all THEN {} ELSE SyscallNums(r.syscalls)
        words == [w \in 1..260 |-> LE32L(HeaderWord(r, items, nums, Len(buf), w))]
        pad   == (4 - (Len(buf) % 4)) % 4
    IN  [i \in 1..RuleHeaderSize |-> words[(i + 3) \div 4][((i - 1) % 4) + 1]] \o buf \o Zeros(pad)

\* the abstract rule is inside the format's limits (otherwise no encoding exists)
Encodable(r) ==
    LET items == AllItems(r) IN
    /\ Len(items) <= AUDIT_MAX_FIELDS
    /\ \A i \in 1..Len(items) : ~items[i].big       \* a number that does not fit the 32-bit value word
    /\ \A i \in 1..Len(items) : ItemField(items[i]) >= 0
    /\ (r.kind = "watch" \/ r.syscalls.all \/ \A n \in SyscallNums(r.syscalls) : n >= 0 /\ n < 32 * AUDIT_BITMASK_SIZE)
    /\ (r.kind = "watch" \/ ~r.syscalls.big)      \* a syscall number written out that no mask bit stands for

\* ---- reading the format back ------------------------------------------------------------------
WordOfWire(b, w) == LimbsOfBytes(SubSeq(b, 4 * w - 3, 4 * w))

\* what a decoder may accept: header present, field_count <= 64, buflen inside the
\* slice, every string value ends inside the buffer (no wrap-around)
RECURSIVE StringsFit(_, _, _, _, _)
StringsFit(b, i, n, off, buflen) ==
    IF i > n THEN TRUE
    ELSE LET f == WordOfWire(b, 67 + i)
             v == WordOfWire(b, 131 + i)
         IN  IF f.hi = 0 /\ f.lo \in StringFields THEN
                 IF v.hi # 0 \/ off + v.lo > buflen THEN FALSE
                 ELSE StringsFit(b, i + 1, n, off + v.lo, buflen)
             ELSE StringsFit(b, i + 1, n, off, buflen)

StructurallyValid(b) ==
    /\ Len(b) >= RuleHeaderSize
    /\ LET fc == WordOfWire(b, 3)
           bl == WordOfWire(b, 260)
       IN  /\ fc.hi = 0 /\ fc.lo <= AUDIT_MAX_FIELDS
           /\ bl.hi = 0 /\ bl.lo <= Len(b) - RuleHeaderSize
           /\ StringsFit(b, 1, fc.lo, 0, bl.lo)
=============================================================================
