------------------------------ MODULE RuleCases ------------------------------
(* The case analysis of the rule family, enumerated by TLC: one state per   *)
(* case descriptor, printed as "CASE <json>".  The harness turns each       *)
(* descriptor into concrete auditctl text (values drawn with the run's      *)
(* seed) and an abstract rule, runs flags.Parse / rule.Build /              *)
(* ToCommandLine, and TLC judges the results with RuleMonitor.              *)
(*                                                                          *)
(* Admits* mirror rule.Build's admissibility rules (which lists a field may *)
(* appear on, which operators it takes), so that the enumerated rules are   *)
(* accepted and therefore judged.                                           *)
EXTENDS Integers, Sequences, FiniteSets, TLC, Json

CONSTANTS Family      \* which case families to enumerate: subset of {"fop","shape","cmp","watch","nfields","sysnum","decode","flags"}

VARIABLES c
Lists   == { "exit", "task", "user", "exclude" }
Actions == { "always", "never" }
Ops     == { "=", "!=", "<", ">", "<=", ">=", "&", "&=" }

UidFields == { "uid", "euid", "suid", "fsuid", "auid", "obj_uid" }
GidFields == { "gid", "egid", "sgid", "fsgid", "obj_gid" }
StrFields == { "subj_user", "subj_role", "subj_type", "subj_sen", "subj_clr", "obj_user", "obj_role", "obj_type",
               "obj_lev_low", "obj_lev_high", "path", "dir", "exe" }
NumFields == { "pid", "ppid", "pers", "devmajor", "devminor", "inode", "success", "saddr_fam", "a0", "a1", "a2", "a3" }
Fields == UidFields \cup GidFields \cup StrFields \cup NumFields \cup { "exit", "msgtype", "arch", "perm", "filetype" }

ExcludeOk == { "pid", "uid", "gid", "auid", "msgtype", "subj_user", "subj_role", "subj_type", "subj_sen", "subj_clr", "exe" }
ExitOnly  == { "exit", "obj_user", "obj_role", "obj_type", "obj_lev_low", "obj_lev_high", "path", "dir", "perm", "filetype",
               "inode", "devmajor", "devminor", "success", "ppid" }

AdmitsList(f, l) ==
    /\ (l = "exclude" => f \in ExcludeOk)
    /\ (f \in ExitOnly => l = "exit")
    /\ (f = "msgtype" => l \in { "user", "exclude" })
AdmitsOp(f, o) ==
    /\ (f \in { "arch", "inode" } => o \in { "=", "!=" })
    /\ (f = "perm" => o = "=")

ArchNames == { "b64", "b32", "x86_64", "i386", "aarch64", "arm", "ppc", "ppc64", "ppc64le", "s390", "s390x",
               "mips", "mipsel", "mips64", "mipsel64", "ia64", "armeb", "sparc", "sparc64", "m68k", "parisc", "parisc64", "loongarch64" }

VClasses(f) ==
    \* name_both: a name that is a user and a group with different ids on this machine (root when there is none)
    IF f \in UidFields THEN { "zero", "small", "max31", "high", "unset", "minus1", "name_root", "name_both", "overflow" }
    ELSE IF f \in GidFields THEN { "zero", "small", "max31", "high", "unset", "minus1", "name_root", "name_both", "overflow" }
    ELSE IF f \in StrFields THEN { "short", "long", "max", "special", "utf8", "edges" }
    ELSE IF f = "saddr_fam" THEN { "two", "ten" }
    ELSE IF f \in NumFields THEN { "zero", "one", "dec", "hex", "neg", "max", "overflow" }
    ELSE IF f = "exit" THEN { "zero", "pos", "neg", "errno_neg", "errno_pos", "min", "overflow" }
    ELSE IF f = "msgtype" THEN { "num", "name", "high", "overflow", "octal", "hex" }
    ELSE IF f = "arch" THEN ArchNames
    ELSE IF f = "perm" THEN { "r", "w", "x", "a", "rw", "wa", "xr", "rwxa" }
    ELSE { "file", "dir", "socket", "symlink", "char", "block", "fifo" }

\* an arch filter next to syscalls given by number: names are the printer's choice where the library has
\* a table for the architecture, numbers where it has none - either way the listing must exist and mean the same
ArchNum == { [c |-> "archnum", arch |-> a, op |-> o, n |-> n, m |-> m] : a \in ArchNames \ { "b64", "b32" }, o \in { "=", "!=" },
               n \in { 0, 5, 400 }, m \in { 1, 2047 } }

FopCases == { [c |-> "fop", field |-> f, op |-> o, vclass |-> v, list |-> l] :
                f \in Fields, o \in Ops, l \in Lists, v \in UNION { VClasses(g) : g \in Fields } }
Fop == { x \in FopCases : x.vclass \in VClasses(x.field) /\ AdmitsList(x.field, x.list) /\ AdmitsOp(x.field, x.op) }

\* "all_then", "then_all": the word all next to specific syscalls (auditctl: all wins)
SyscallShapes == { "none", "all", "one", "many", "names64", "names32", "high", "dense", "all_then", "then_all" }
Shape == { [c |-> "shape", list |-> l, action |-> a, sc |-> s, nkeys |-> k] :
             l \in Lists, a \in Actions, s \in SyscallShapes, k \in 0..3 }

CmpPairs == { << "uid", "obj_uid" >>, << "gid", "obj_gid" >>, << "euid", "obj_uid" >>, << "egid", "obj_gid" >>,
              << "auid", "obj_uid" >>, << "suid", "obj_uid" >>, << "sgid", "obj_gid" >>, << "fsuid", "obj_uid" >>,
              << "fsgid", "obj_gid" >>, << "uid", "auid" >>, << "uid", "euid" >>, << "uid", "fsuid" >>, << "uid", "suid" >>,
              << "auid", "fsuid" >>, << "auid", "suid" >>, << "auid", "euid" >>, << "euid", "suid" >>, << "euid", "fsuid" >>,
              << "suid", "fsuid" >>, << "gid", "egid" >>, << "gid", "fsgid" >>, << "gid", "sgid" >>, << "egid", "fsgid" >>,
              << "egid", "sgid" >>, << "sgid", "fsgid" >> }
Cmp == { [c |-> "cmp", lhs |-> IF sw THEN p[2] ELSE p[1], rhs |-> IF sw THEN p[1] ELSE p[2], op |-> o] :
           p \in CmpPairs, sw \in BOOLEAN, o \in { "=", "!=" } }

PermSets == { "", "r", "w", "x", "a", "rw", "rx", "ra", "wx", "wa", "xa", "rwx", "rwa", "rxa", "wxa", "rwxa" }
Watch == { [c |-> "watch", perm |-> p, wtype |-> t, nkeys |-> k] : p \in PermSets, t \in { "path", "dir" }, k \in 0..2 }

\* the 64-entry field table is filled by -F and by -C arguments alike; cmp says where the -C ones sit
\* syscall rules laid out like a file watch (path=/dir= then perm=, a key): only the exact shape of a watch
\* (always,exit, =, path before perm) may be listed as -w; every other one has to stay a syscall rule
\* spell: how the name is written - as it is, with a trailing slash, a doubled slash, a dot component (-w cleans its argument)
\* nkeys = 3: one key, given as the filter -F key=K where K contains a comma (-k would read two keys there)
WLike == { [c |-> "wlike", action |-> a, pf |-> f, pop |-> o, perm |-> p, permv |-> v, nkeys |-> k, sc |-> s, spell |-> w] :
             a \in Actions, f \in { "path", "dir" }, o \in { "=", "!=" }, p \in { "none", "after", "before" },
             v \in { "r", "wa", "rwxa" }, k \in 0..3, s \in { "none", "all", "one" }, w \in { "clean", "slash", "double", "dot" } }

NFields == { [c |-> "nfields", n |-> n, key |-> k, cmp |-> m] : n \in { 0, 1, 2, 31, 62, 63, 64, 65, 66, 70 }, k \in BOOLEAN,
             m \in { "none", "last", "last2", "first", "all" } }

SysNums == { 0, 1, 15, 16, 31, 32, 33, 63, 64, 1023, 1024, 2016, 2046, 2047 }
SysNum == { [c |-> "sysnum", a |-> a, b |-> b] : a \in SysNums, b \in SysNums }
\* numbers no mask bit stands for (strings: some exceed TLC's integers); alone or next to a valid syscall
SysBig == { [c |-> "sysbig", v |-> v, with |-> w] :
              v \in { "2048", "2079", "2080", "65536", "2147483647", "2147483648", "4294967295", "4294967296", "4294967297", "4294969343",
                      "8589934594", "9223372036854775807", "-1", "-4294967295" },
              w \in { "none", "before", "after" } }

\* every syscall from 0 up to a bound, one by one: up to 2031 this is the bit pattern of "all", below and above it is not
SysPrefix == { [c |-> "sysprefix", top |-> n, list |-> l] : n \in { 30, 31, 32, 2014, 2015, 2016, 2030, 2031, 2032, 2046, 2047 }, l \in { "exit", "task" } }
\* keys that are empty words: alone, twice, next to a real key (e = empty, a = a word)
EmptyKey == { [c |-> "emptykey", kind |-> k, keys |-> ks] : k \in { "watch", "syscall" }, ks \in { "e", "ee", "ae", "ea", "eae" } }

\* a key given as a filter next to other keys (a second -F key=, -k flags), behind a filter of every kind of field:
\* where a rule's strings sit depends on which of the fields before them are strings
TwoKeysBefore == { "none", "pid", "ppid", "uid", "auid", "gid", "obj_uid", "pers", "a0", "a3", "exit", "success", "devmajor", "devminor",
                   "inode", "filetype", "perm", "saddr_fam", "subj_user", "subj_role", "subj_type", "subj_sen", "subj_clr",
                   "obj_user", "obj_role", "obj_type", "obj_lev_low", "obj_lev_high", "exe", "path", "dir" }
TwoKeys == { [c |-> "twokeys", before |-> f, form |-> x] : f \in TwoKeysBefore, x \in { "F", "Fk", "FF", "Fkk", "FFk" } }

\* C13: every header word of a valid rule replaced by boundary values; truncations
HeaderWords == 1..260
Boundary == { "0", "1", "63", "64", "65", "255", "65536", "2147483647", "2147483648", "4294967294", "4294967295" }
Decode == { [c |-> "decode", word |-> w, value |-> v] : w \in HeaderWords, v \in Boundary }

\* C14: flag sets in every order (up to 4 flags), values sampled by the harness
FlagLetters == { "a", "A", "F", "C", "S", "k", "w", "p", "D", "X" }    \* X: a stray positional word
Seqs(S, n) == UNION { [1..m -> S] : m \in 0..n }
FlagCases == { [c |-> "flags", order |-> s] : s \in Seqs(FlagLetters, 4) }
\* every flag may repeat: list-valued ones accumulate, a second -w/-a/-A has to be refused
Flags == FlagCases

All == (IF "fop" \in Family THEN Fop ELSE {}) \cup (IF "shape" \in Family THEN Shape ELSE {})
       \cup (IF "cmp" \in Family THEN Cmp ELSE {}) \cup (IF "watch" \in Family THEN Watch \cup WLike \cup EmptyKey ELSE {})
       \cup (IF "nfields" \in Family THEN NFields \cup TwoKeys ELSE {}) \cup (IF "sysnum" \in Family THEN SysNum \cup SysBig \cup ArchNum \cup SysPrefix ELSE {})
       \cup (IF "decode" \in Family THEN Decode ELSE {}) \cup (IF "flags" \in Family THEN Flags ELSE {})

Init == c \in All
Next == UNCHANGED c
Spec == Init /\ [][Next]_c

Emit == PrintT("CASE " \o ToJson(c))
=============================================================================
