----------------------------- MODULE IdCacheConc -----------------------------
(* The id <-> name cache (aucoalesce/id_lookup.go, stringCache.lookup) used  *)
(* by several goroutines at once - what ResolveIDs does when events are      *)
(* resolved in parallel (C15: "the outcome for other messages").            *)
(* One lookup is the code's critical section cut at every point where       *)
(* another goroutine may run:                                               *)
(*    Call     the key is "" / "unset": answered without the lock           *)
(*    Acquire  mutex.Lock()                                                 *)
(*    Probe    c.data[key]: a hit ends the lookup                           *)
(*    Consult  c.lookupFn(key) - slow: NSS, LDAP - still under the lock     *)
(*    Fill     c.data[key] = answer                                         *)
(*    Release  the deferred mutex.Unlock(), the lookup returns              *)
(* The backing store does not change and entries do not expire here (the    *)
(* timed side is IdCache.tla).                                              *)
(* Bug = "ReleaseDuringConsult" is the tempting optimisation: reserve the   *)
(* key with an empty entry, drop the lock for the slow consultation, take   *)
(* it again to fill in the answer.                                          *)
EXTENDS Integers, Sequences, FiniteSets, TLC

CONSTANTS Procs, Keys, Values, MaxCalls, Bug

VARIABLES data,      \* key -> cached value
          store,     \* key -> value ("" = no such id); fixed
          lock,      \* holder of the mutex, or "none"
          pc, key, got,
          calls,     \* lookups started so far
          rec        \* last completed lookup: [op, p, key, ret, called, store_said]

cvars == << data, store, lock, pc, key, got, calls, rec >>

EmptyFn == [x \in {} |-> 0]
PutFn(f, k, v) == [x \in DOMAIN f \cup {k} |-> IF x = k THEN v ELSE f[x]]
AllKeys == Keys \cup {"", "unset"}

Init ==
    /\ data = EmptyFn
    /\ store \in [Keys -> Values \cup {""}]
    /\ lock = "none"
    /\ pc = [p \in Procs |-> "idle"]
    /\ key = [p \in Procs |-> ""]
    /\ got = [p \in Procs |-> [v |-> "", called |-> FALSE]]
    /\ calls = 0
    /\ rec = [op |-> "init", p |-> "", key |-> "", ret |-> "", called |-> FALSE, store_said |-> "", n |-> 0]

Done(p, v, called) ==
    /\ rec' = [op |-> "clookup", p |-> p, key |-> key[p], ret |-> v, called |-> called,
               store_said |-> IF key[p] \in Keys THEN store[key[p]] ELSE "", n |-> rec.n + 1]
    /\ pc' = [pc EXCEPT ![p] = "idle"]

Call(p, k) ==
    /\ pc[p] = "idle" /\ calls < MaxCalls
    /\ calls' = calls + 1
    /\ key' = [key EXCEPT ![p] = k]
    /\ got' = [got EXCEPT ![p] = [v |-> "", called |-> FALSE]]
    /\ pc' = [pc EXCEPT ![p] = IF k \in {"", "unset"} THEN "trivial" ELSE "acquire"]
    /\ UNCHANGED << data, store, lock, rec >>

Trivial(p) ==
    /\ pc[p] = "trivial"
    /\ Done(p, "", FALSE)
    /\ UNCHANGED << data, store, lock, key, got, calls >>

Acquire(p) ==
    /\ pc[p] \in {"acquire", "reacquire"} /\ lock = "none"
    /\ lock' = p
    /\ pc' = [pc EXCEPT ![p] = IF pc[p] = "acquire" THEN "probe" ELSE "fill"]
    /\ UNCHANGED << data, store, key, got, calls, rec >>

Probe(p) ==
    /\ pc[p] = "probe" /\ lock = p
    /\ IF key[p] \in DOMAIN data THEN
            /\ got' = [got EXCEPT ![p] = [v |-> data[key[p]], called |-> FALSE]]
            /\ pc' = [pc EXCEPT ![p] = "release"]
            /\ UNCHANGED << data, lock >>
       ELSE IF Bug = "ReleaseDuringConsult" THEN
            /\ data' = PutFn(data, key[p], "")          \* the key is "reserved"
            /\ lock' = "none"
            /\ pc' = [pc EXCEPT ![p] = "consult"]
            /\ UNCHANGED got
       ELSE
            /\ pc' = [pc EXCEPT ![p] = "consult"]
            /\ UNCHANGED << data, lock, got >>
    /\ UNCHANGED << store, key, calls, rec >>

Consult(p) ==
    /\ pc[p] = "consult"
    /\ got' = [got EXCEPT ![p] = [v |-> store[key[p]], called |-> TRUE]]
    /\ pc' = [pc EXCEPT ![p] = IF lock = p THEN "fill" ELSE "reacquire"]
    /\ UNCHANGED << data, store, lock, key, calls, rec >>

Fill(p) ==
    /\ pc[p] = "fill" /\ lock = p
    /\ data' = PutFn(data, key[p], got[p].v)
    /\ pc' = [pc EXCEPT ![p] = "release"]
    /\ UNCHANGED << store, lock, key, got, calls, rec >>

Release(p) ==
    /\ pc[p] = "release" /\ lock = p
    /\ lock' = "none"
    /\ Done(p, got[p].v, got[p].called)
    /\ UNCHANGED << data, store, key, got, calls >>

Next == \E p \in Procs :
           \/ \E k \in AllKeys : Call(p, k)
           \/ Trivial(p) \/ Acquire(p) \/ Probe(p) \/ Consult(p) \/ Fill(p) \/ Release(p)

\* ---- design invariants -------------------------------------------------------------
TypeOK == /\ lock \in Procs \cup {"none"}
          /\ \A p \in Procs : pc[p] \in {"idle", "trivial", "acquire", "probe", "consult", "reacquire", "fill", "release"}
\* the map is only touched under the mutex
MapUnderLock == \A p \in Procs : pc[p] \in {"probe", "fill", "release"} => lock = p
\* what a lookup can find in the map is what the store holds: nothing half-done is visible once the lock is free
CachedIsStored == lock = "none" => \A k \in DOMAIN data : data[k] = store[k]
\* the lock is never left taken by a lookup that has returned
NoOrphanLock == lock # "none" => pc[lock] # "idle"
=============================================================================
