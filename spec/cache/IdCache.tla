------------------------------- MODULE IdCache -------------------------------
(* The id <-> name cache behind ResolveIDs (aucoalesce/id_lookup.go,         *)
(* stringCache): a timed machine like the Reassembler's timeout.             *)
(*   lookup(key): "" and "unset" are never looked up; a cached entry that    *)
(*   has not expired is returned (even a negative one); otherwise the        *)
(*   backing store is consulted, and the answer - also an empty one - is     *)
(*   cached for Expiration ticks.  Hard-coded entries never expire.          *)
(* The backing store (the system's passwd/group database) may change.        *)
EXTENDS Integers, Sequences, FiniteSets, TLC

CONSTANTS Keys, Values, Expiration, MaxOps, MaxTicks, Never

VARIABLES data,     \* key -> [value, expire]
          store,    \* key -> value ("" = no such id)
          now, nops, ticks,
          rec       \* last observation: [op, key, ret, called (store consulted), t0, t1]

vars == << data, store, now, nops, ticks, rec >>

EmptyFn == [x \in {} |-> 0]
PutFn(f, k, v) == [x \in DOMAIN f \cup {k} |-> IF x = k THEN v ELSE f[x]]

Init ==
    /\ data = EmptyFn
    /\ store \in [Keys -> Values \cup {""}]
    /\ now = 0 /\ nops = 0 /\ ticks = 0
    /\ rec = [op |-> "init", key |-> "", ret |-> "", called |-> FALSE, t0 |-> 0, t1 |-> 0]

Lookup(k) ==
    /\ nops < MaxOps
    /\ nops' = nops + 1
    /\ IF k \in {"", "unset"} THEN
            /\ rec' = [op |-> "lookup", key |-> k, ret |-> "", called |-> FALSE, t0 |-> now, t1 |-> now]
            /\ UNCHANGED data
       ELSE IF k \in DOMAIN data /\ ~(now > data[k].expire) THEN
            /\ rec' = [op |-> "lookup", key |-> k, ret |-> data[k].value, called |-> FALSE, t0 |-> now, t1 |-> now]
            /\ UNCHANGED data
       ELSE
            /\ data' = PutFn(data, k, [value |-> store[k], expire |-> now + Expiration])
            /\ rec' = [op |-> "lookup", key |-> k, ret |-> store[k], called |-> TRUE, t0 |-> now, t1 |-> now]
    /\ UNCHANGED << store, now, ticks >>

Hardcode(k, v) ==
    /\ nops < MaxOps
    /\ nops' = nops + 1
    /\ data' = PutFn(data, k, [value |-> v, expire |-> Never])
    /\ rec' = [op |-> "hardcode", key |-> k, ret |-> v, called |-> FALSE, t0 |-> now, t1 |-> now]
    /\ UNCHANGED << store, now, ticks >>

\* the system database changes under the cache
Change(k, v) ==
    /\ nops < MaxOps /\ store[k] # v
    /\ nops' = nops + 1
    /\ store' = [store EXCEPT ![k] = v]
    /\ rec' = [op |-> "change", key |-> k, ret |-> v, called |-> FALSE, t0 |-> now, t1 |-> now]
    /\ UNCHANGED << data, now, ticks >>

Tick ==
    /\ ticks < MaxTicks
    /\ now' = now + 1 /\ ticks' = ticks + 1
    /\ rec' = [op |-> "tick", key |-> "", ret |-> "", called |-> FALSE, t0 |-> now + 1, t1 |-> now + 1]
    /\ UNCHANGED << data, store, nops >>

Next ==
    \/ \E k \in Keys \cup {"", "unset"} : Lookup(k)
    \/ \E k \in Keys, v \in Values : Hardcode(k, v)
    \/ \E k \in Keys, v \in Values \cup {""} : Change(k, v)
    \/ Tick
=============================================================================
