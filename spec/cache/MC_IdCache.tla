------------------------------ MODULE MC_IdCache ------------------------------
EXTENDS IdCache

VARIABLES mon
KM == INSTANCE CacheMonitor

mcvars == << vars, mon >>
MCInit == Init /\ mon = KM!KInit(Expiration, FALSE)
MCNext == /\ Next
          /\ mon' = IF rec'.op = "lookup" /\ rec'.called
                    THEN KM!KStep(mon, [op |-> rec'.op, key |-> rec'.key, ret |-> rec'.ret, called |-> TRUE, t0 |-> rec'.t0, t1 |-> rec'.t1,
                                        store_said |-> store[rec'.key]])
                    ELSE KM!KStep(mon, [op |-> rec'.op, key |-> rec'.key, ret |-> rec'.ret, called |-> rec'.called, t0 |-> rec'.t0, t1 |-> rec'.t1,
                                        store_said |-> ""])
MCSpec == MCInit /\ [][MCNext]_mcvars
NoFlags == Len(mon.flags) = 0
=============================================================================
