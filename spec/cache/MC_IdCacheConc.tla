---------------------------- MODULE MC_IdCacheConc ----------------------------
EXTENDS IdCacheConc

VARIABLES mon
KM == INSTANCE CacheMonitor

mcvars == << cvars, mon >>
MCInit == Init /\ mon = KM!KInit(0, TRUE)
MCNext == /\ Next
          /\ mon' = IF rec' # rec THEN KM!KStep(mon, rec') ELSE [mon EXCEPT !.flags = << >>]
MCSpec == MCInit /\ [][MCNext]_mcvars /\ WF_mcvars(MCNext)
NoFlags == Len(mon.flags) = 0
\* every lookup that was started returns: the lock is always given back
Returns == \A p \in Procs : (pc[p] # "idle") ~> (pc[p] = "idle")
=============================================================================
