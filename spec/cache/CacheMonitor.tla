---------------------------- MODULE CacheMonitor ----------------------------
(* What a user of the cache may rely on ("CACHE", not a listed property):   *)
(*   - "" and "unset" resolve to "" without consulting the backing store;   *)
(*   - a hard-coded key always resolves to its hard-coded value, without    *)
(*     consulting the store;                                                *)
(*   - otherwise the answer is what the store said the last time it was     *)
(*     consulted for that key; the store is consulted when no answer is     *)
(*     cached or the cached one is older than the expiration, and is not    *)
(*     consulted while the cached answer is younger (negative answers       *)
(*     included).                                                           *)
(*   - lookups running side by side (op "clookup", IdCacheConc.tla) see     *)
(*     nothing of each other: each returns what the store holds.            *)
(* Time is judged with [t0,t1] intervals as for C19: "must be expired" iff  *)
(* s0 > c1 + E, "cannot be expired" iff s1 <= c0 + E.                       *)
EXTENDS Integers, Sequences, FiniteSets, TLC

KFlag(w) == [prop |-> "CACHE", why |-> w]
EmptyFn == [x \in {} |-> 0]
PutFn(f, k, v) == [x \in DOMAIN f \cup {k} |-> IF x = k THEN v ELSE f[x]]

KInit(expiration, never) == [ exp |-> expiration,
                       never |-> never,   \* the expiration is so long that it cannot pass during a trace
                       ans |-> EmptyFn,    \* key -> [value, c0, c1] of the last store consultation
                       hard |-> EmptyFn,   \* key -> hard-coded value
                       cseen |-> {},       \* keys the store was consulted for by lookups running side by side
                       flags |-> << >> ]

KStep(m0, r) ==
    LET m == [m0 EXCEPT !.flags = << >>] IN
    IF r.op = "hardcode" THEN [m EXCEPT !.hard = PutFn(@, r.key, r.ret)]
    ELSE IF r.op = "clookup" THEN
        \* lookups of several goroutines against an unchanging store and entries that do not expire
        \* (IdCacheConc.tla): whatever else is going on, the answer is the store's, and the store is asked once
        [m EXCEPT !.flags = (IF r.ret # r.store_said
                             THEN << KFlag("a lookup running next to others did not return what the backing store holds") >> ELSE << >>)
                            \o (IF r.called /\ r.key \in m.cseen
                                THEN << KFlag("the backing store was consulted twice for one key that does not expire") >> ELSE << >>)
                            \o (IF r.called /\ r.key \in {"", "unset"} THEN << KFlag("the empty or unset id was looked up") >> ELSE << >>),
                  !.cseen = IF r.called THEN @ \cup {r.key} ELSE @]
    ELSE IF r.op # "lookup" THEN m
    ELSE IF r.key \in {"", "unset"} THEN
        [m EXCEPT !.flags = IF r.ret # "" \/ r.called THEN << KFlag("the empty or unset id was looked up") >> ELSE << >>]
    ELSE IF r.key \in DOMAIN m.hard THEN
        [m EXCEPT !.flags = IF r.ret # m.hard[r.key] THEN << KFlag("a hard-coded entry did not resolve to its value") >>
                            ELSE IF r.called THEN << KFlag("the backing store was consulted for a hard-coded entry") >> ELSE << >>]
    ELSE IF r.called THEN
        \* the store was consulted: its answer is returned and remembered; it must not have been necessary to skip it
        LET early == r.key \in DOMAIN m.ans /\ (m.never \/ r.t1 <= m.ans[r.key][2] + m.exp)
        IN  [m EXCEPT !.flags = (IF r.ret # r.store_said THEN << KFlag("the lookup did not return what the backing store answered") >> ELSE << >>)
                                \o (IF early THEN << KFlag("the backing store was consulted again before the cached answer expired") >> ELSE << >>),
                      !.ans = PutFn(@, r.key, << r.store_said, r.t0, r.t1 >>)]
    ELSE
        \* answered from the cache
        IF r.key \notin DOMAIN m.ans THEN [m EXCEPT !.flags = << KFlag("an answer was returned although the store was never consulted") >>]
        ELSE [m EXCEPT !.flags =
                 (IF r.ret # m.ans[r.key][1] THEN << KFlag("the cached answer differs from what the store last said") >> ELSE << >>)
                 \o (IF ~m.never /\ r.t0 > m.ans[r.key][3] + m.exp THEN << KFlag("a cached answer was served after its expiration") >> ELSE << >>)]
=============================================================================
