------------------------------ MODULE CacheTrace ------------------------------
EXTENDS Integers, Sequences, TLC, Json, IOUtils

KM == INSTANCE CacheMonitor
Trace == ndJsonDeserialize(IOEnv.TRACE_FILE)

VARIABLES l, mon, tr
vars == << l, mon, tr >>
Init == l = 1 /\ mon = KM!KInit(0, TRUE) /\ tr = 0 /\ TLCSet(1, 1)

Report(fl, line, t) ==
    \A i \in 1..Len(fl) : PrintT("FLAG " \o ToJson([prop |-> fl[i].prop, why |-> fl[i].why, line |-> line, trace |-> t]))

Next ==
    /\ l <= Len(Trace)
    /\ LET r == Trace[l] IN
         IF r.k = "reset" THEN mon' = KM!KInit(r.expiration, r.never) /\ tr' = r.trace
         ELSE IF r.k = "cache" THEN mon' = KM!KStep(mon, r) /\ tr' = tr
         ELSE mon' = [mon EXCEPT !.flags = << >>] /\ tr' = tr
    /\ Report(mon'.flags, l, tr')
    /\ l' = l + 1
    /\ TLCSet(1, l + 1)

Spec == Init /\ [][Next]_vars
AllConsumed == TLCGet(1) = Len(Trace) + 1
=============================================================================
