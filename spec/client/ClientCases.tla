----------------------------- MODULE ClientCases -----------------------------
(* Per-record oracles of C16 that need no history:                          *)
(*   "fromwire": AuditStatus.FromWireFormat on a buffer of any length,      *)
(*               decoded into a pre-filled struct from a slice whose spare  *)
(*               capacity holds a sentinel;                                 *)
(*   "const":    an exported constant, logged by name, against the UAPI.    *)
EXTENDS Integers, Sequences, TLC, Bytes, AuditWire

Flag(p, w) == [prop |-> p, why |-> w]

\* r: [len, buf (bytes), ret ("ok" | "eof" | "err" | "panic"), out (44 bytes of the struct after the call)]
JudgeFromWire(r) ==
    IF r.ret = "panic" THEN << Flag("C16", "FromWireFormat panicked") >>
    ELSE IF Len(r.buf) < MinSizeofAuditStatus THEN
        IF r.ret # "eof" THEN << Flag("C16", "FromWireFormat accepted (or mis-reported) a buffer shorter than the 2.6.32 audit_status") >> ELSE << >>
    ELSE IF r.ret # "ok" THEN << Flag("C16", "FromWireFormat rejected a buffer of at least the minimum size") >>
    ELSE IF \E i \in 1..11 : Covered(r.buf, i) /\ ~LimbsEq(WordAt(r.out, i), WordAt(r.buf, i))
        THEN << Flag("C16", "FromWireFormat: a field covered by the buffer differs from the buffer") >>
    ELSE IF \E i \in 1..11 : Uncovered(r.buf, i) /\ ~LimbsEq(WordAt(r.out, i), LimbsZero)
        THEN << Flag("C16", "FromWireFormat: a field the buffer does not reach is not zero (stale or read past the buffer)") >>
    ELSE << >>

UapiConst(name) ==
    CASE name = "AuditGet" -> AUDIT_GET
      [] name = "AuditSet" -> AUDIT_SET
      [] name = "SilentOnFailure" -> AUDIT_FAIL_SILENT
      [] name = "LogOnFailure" -> AUDIT_FAIL_PRINTK
      [] name = "PanicOnFailure" -> AUDIT_FAIL_PANIC
      [] name = "AuditStatusEnabled" -> AUDIT_STATUS_ENABLED
      [] name = "AuditStatusFailure" -> AUDIT_STATUS_FAILURE
      [] name = "AuditStatusPID" -> AUDIT_STATUS_PID
      [] name = "AuditStatusRateLimit" -> AUDIT_STATUS_RATE_LIMIT
      [] name = "AuditStatusBacklogLimit" -> AUDIT_STATUS_BACKLOG_LIMIT
      [] name = "AuditStatusBacklogWaitTime" -> AUDIT_STATUS_BACKLOG_WAIT_TIME
      [] name = "AuditStatusLost" -> AUDIT_STATUS_LOST
      [] name = "AuditFeatureBitmapBacklogLimit" -> AUDIT_FEATURE_BITMAP_BACKLOG_LIMIT
      [] name = "AuditFeatureBitmapBacklogWaitTime" -> AUDIT_FEATURE_BITMAP_BACKLOG_WAIT_TIME
      [] name = "AuditFeatureBitmapExecutablePath" -> AUDIT_FEATURE_BITMAP_EXECUTABLE_PATH
      [] name = "AuditFeatureBitmapExcludeExtend" -> AUDIT_FEATURE_BITMAP_EXCLUDE_EXTEND
      [] name = "AuditFeatureBitmapSessionIDFilter" -> AUDIT_FEATURE_BITMAP_SESSIONID_FILTER
      [] name = "AuditFeatureBitmapLostReset" -> AUDIT_FEATURE_BITMAP_LOST_RESET
      [] name = "MinSizeofAuditStatus" -> MinSizeofAuditStatus
      [] name = "AuditMessageMaxLength" -> 8970
      [] OTHER -> -1

JudgeConst(r) ==
    IF UapiConst(r.name) = -1 THEN << >>
    ELSE IF r.value # UapiConst(r.name)
    THEN << [prop |-> "C16", why |-> "exported constant " \o r.name \o " does not carry the kernel's number"] >>
    ELSE << >>

Judge(r) == IF r.k = "fromwire" THEN JudgeFromWire(r) ELSE IF r.k = "const" THEN JudgeConst(r) ELSE << >>
=============================================================================
