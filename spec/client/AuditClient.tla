----------------------------- MODULE AuditClient -----------------------------
(* Model of libaudit.AuditClient (audit.go) talking to a scripted kernel     *)
(* over the NetlinkSendReceiver interface.  Client and kernel are one        *)
(* machine: every request the client sends makes the kernel queue the        *)
(* frames its script ("plan") holds for that request; the client's receive   *)
(* loop (getReply) pops them one at a time.                                  *)
(*                                                                           *)
(* One action per public method; inside, the code's steps are composed:     *)
(*   Send ; getReply (<= 10 receive attempts per frame, skip sequence-0      *)
(*   frames, reject a foreign sequence) ; ACK must be NLMSG_ERROR ;         *)
(*   errno from the first payload word ; data frames until NLMSG_DONE.      *)
(* Named deviations of the pinned code are seeded-bug configurations:       *)
(*   Bug = "DeleteIgnoresAck"  DeleteRule returns nil whatever the ACK says *)
(*   Bug = "AcksNotForgotten"  WaitForPendingACKs never drops consumed ACKs *)
EXTENDS Integers, Sequences, FiniteSets, TLC, Bytes, AuditWire

CONSTANTS Bug

VARIABLES
    wire,      \* frames queued by the kernel, not yet received
    seqctr,    \* last sequence number used by the transport
    pending,   \* sequence numbers of NoWait requests whose ACK is not consumed yet
    clearPid,  \* SetPID was called
    onceDone,  \* closeOnce has fired
    ncloses,   \* calls of Netlink.Close so far
    rec        \* observation of the last operation

cvars == << wire, seqctr, pending, clearPid, onceDone, ncloses >>

\* ---- kernel side ------------------------------------------------------------
\* a scripted frame: [k, type, rel, payload]; k: "msg" | "eintr" | "eagain" | "hard" | "short"
\* rel: "own" | "zero" | "foreign"
SeqFor(rel, s) == IF rel = "own" THEN s ELSE IF rel = "zero" THEN 0 ELSE s + 7
Resolve(frames, s) == [i \in 1..Len(frames) |-> [k |-> frames[i].k, type |-> frames[i].type,
                                                 seq |-> SeqFor(frames[i].rel, s), payload |-> frames[i].payload]]

\* ---- client side: getReply ----------------------------------------------------
RECURSIVE Recv10(_, _, _)
Recv10(w, tries, pops) ==
    IF tries = 10 THEN [w |-> w, res |-> "none", pops |-> pops]
    ELSE IF Len(w) = 0 THEN Recv10(w, tries + 1, pops)           \* EAGAIN from an empty socket
    ELSE LET f == Head(w) IN
         IF f.k \in {"eintr", "eagain"} THEN Recv10(Tail(w), tries + 1, pops + 1)
         ELSE IF f.k \in {"hard", "short"} THEN [w |-> Tail(w), res |-> "hard", pops |-> pops + 1]
         ELSE [w |-> Tail(w), res |-> "msg", f |-> f, pops |-> pops + 1]

RECURSIVE GetReply(_, _, _)
GetReply(w, s, pops) ==
    LET r == Recv10(w, 0, pops) IN
    IF r.res # "msg" THEN [w |-> r.w, res |-> "err", pops |-> r.pops]
    ELSE IF r.f.seq = 0 /\ s # 0 THEN GetReply(r.w, s, r.pops)
    ELSE IF r.f.seq # s THEN [w |-> r.w, res |-> "err", pops |-> r.pops]
    ELSE [w |-> r.w, res |-> "msg", f |-> r.f, pops |-> r.pops]

\* verdict carried by an ACK frame: 0 = success, >0 errno, -1 = not a usable ACK
AckVerdict(f) ==
    IF f.type # NLMSG_ERROR \/ Len(f.payload) < 4 THEN -1
    ELSE LET e == AckErrno(f.payload) IN IF e.hi = 0 THEN e.lo ELSE -1

Sent(type, s, payload) == [type |-> type, flags |-> NLM_F_REQUEST + NLM_F_ACK, seq |-> Limbs(s),
                           pid |-> LimbsZero, payload |-> payload]

PlanAt(plan, n) == IF n <= Len(plan) THEN plan[n] ELSE << >>

\* result record of one step inside an operation
\*   [w, ctr, ret ("nil"|"err"), errno, data, sent, pops]
Request(w, ctr, type, payload, frames) ==
    LET s  == ctr + 1
        w1 == w \o Resolve(frames, s)
        r  == GetReply(w1, s, 0)
        v  == IF r.res = "msg" THEN AckVerdict(r.f) ELSE -1
    IN  [w |-> r.w, ctr |-> s, pops |-> r.pops, sent |-> << Sent(type, s, payload) >>,
         ret |-> IF v = 0 THEN "nil" ELSE "err", errno |-> IF v > 0 THEN v ELSE 0, got |-> r.res]

\* status payload the setters build: mask and one field
StatusPayload(mask, field, value) ==
    LET idx == FieldIndex(field) IN
    [i \in 1..SizeofAuditStatus |->
        LET word == (i + 3) \div 4
            b    == (i - 1) % 4
            v    == IF word = 1 THEN Limbs(mask) ELSE IF word = idx THEN value ELSE LimbsZero
        IN  LE32L(v)[b + 1]]

SetterMask(name) ==
    CASE name = "SetEnabled" -> AUDIT_STATUS_ENABLED
      [] name = "SetImmutable" -> AUDIT_STATUS_ENABLED
      [] name = "SetFailure" -> AUDIT_STATUS_FAILURE
      [] name = "SetPID" -> AUDIT_STATUS_PID
      [] name = "SetRateLimit" -> AUDIT_STATUS_RATE_LIMIT
      [] name = "SetBacklogLimit" -> AUDIT_STATUS_BACKLOG_LIMIT
      [] name = "SetBacklogWaitTime" -> AUDIT_STATUS_BACKLOG_WAIT_TIME
SetterField(name) ==
    CASE name = "SetEnabled" -> "enabled"
      [] name = "SetImmutable" -> "enabled"
      [] name = "SetFailure" -> "failure"
      [] name = "SetPID" -> "pid"
      [] name = "SetRateLimit" -> "rate_limit"
      [] name = "SetBacklogLimit" -> "backlog_limit"
      [] name = "SetBacklogWaitTime" -> "backlog_wait_time"

\* AuditStatus.FromWireFormat: copy what the buffer holds, zero the rest (byte-wise)
Decode44(p) == [i \in 1..SizeofAuditStatus |-> IF i <= Len(p) THEN p[i] ELSE 0]

\* ---- observation record ---------------------------------------------------------
\* value: limbs (setters), rules: payload given to Add/DeleteRule, n: goroutines of a concurrent Close
Obs(name, mode, value, arg, plan, leftBefore, sent, ret, errno, data, pops, closes) ==
    [k |-> "op", name |-> name, mode |-> mode, value |-> value, arg |-> arg, plan |-> plan,
     left_before |-> leftBefore, sent |-> sent, ret |-> ret,
     errid |-> IF errno > 0 THEN << errno >> ELSE << >>, data |-> data,
     pops |-> pops, left |-> 0, closes |-> closes, rtype |-> 0]

Commit(o, w, ctr, pend) ==
    /\ wire' = w /\ seqctr' = ctr /\ pending' = pend
    /\ rec' = [o EXCEPT !.left = Len(w)]

\* ---- operations -----------------------------------------------------------------
GetStatus(plan) ==
    LET s  == seqctr + 1
        w1 == wire \o Resolve(PlanAt(plan, 1), s)
        a  == GetReply(w1, s, 0)
        v  == IF a.res = "msg" THEN AckVerdict(a.f) ELSE -1
        sent == << [Sent(AUDIT_GET, s, << >>) EXCEPT !.flags = NLM_F_REQUEST + NLM_F_ACK] >>
    IN  IF v # 0 THEN
            /\ Commit(Obs("GetStatus", "wait", LimbsZero, << >>, plan, Len(wire), sent, "err", IF v > 0 THEN v ELSE 0, << >>, a.pops, 0),
                      a.w, s, pending)
            /\ UNCHANGED << clearPid, onceDone, ncloses >>
        ELSE
            LET r == GetReply(a.w, s, a.pops)
                good == r.res = "msg" /\ r.f.type = AUDIT_GET /\ Len(r.f.payload) >= MinSizeofAuditStatus
            IN  /\ Commit(Obs("GetStatus", "wait", LimbsZero, << >>, plan, Len(wire), sent, IF good THEN "nil" ELSE "err", 0,
                              IF good THEN << Decode44(r.f.payload) >> ELSE << >>, r.pops, 0), r.w, s, pending)
                /\ UNCHANGED << clearPid, onceDone, ncloses >>

\* receive rule frames until NLMSG_DONE
RECURSIVE RuleLoop(_, _, _, _)
RuleLoop(w, s, pops, acc) ==
    LET r == GetReply(w, s, pops) IN
    IF r.res # "msg" THEN [w |-> r.w, ok |-> FALSE, pops |-> r.pops, rules |-> acc]
    ELSE IF r.f.type = NLMSG_DONE THEN [w |-> r.w, ok |-> TRUE, pops |-> r.pops, rules |-> acc]
    ELSE IF r.f.type # AUDIT_LIST_RULES THEN [w |-> r.w, ok |-> FALSE, pops |-> r.pops, rules |-> acc]
    ELSE RuleLoop(r.w, s, r.pops, Append(acc, r.f.payload))

\* returns [w, ctr, ok, errno, rules, pops, sent]
DoGetRules(w0, ctr, frames) ==
    LET s  == ctr + 1
        w1 == w0 \o Resolve(frames, s)
        a  == GetReply(w1, s, 0)
        v  == IF a.res = "msg" THEN AckVerdict(a.f) ELSE -1
        sent == << Sent(AUDIT_LIST_RULES, s, << >>) >>
    IN  IF v # 0 THEN [w |-> a.w, ctr |-> s, ok |-> FALSE, errno |-> IF v > 0 THEN v ELSE 0, rules |-> << >>, pops |-> a.pops, sent |-> sent]
        ELSE LET l == RuleLoop(a.w, s, a.pops, << >>)
             IN  [w |-> l.w, ctr |-> s, ok |-> l.ok, errno |-> 0, rules |-> IF l.ok THEN l.rules ELSE << >>, pops |-> l.pops, sent |-> sent]

GetRules(plan) ==
    LET g == DoGetRules(wire, seqctr, PlanAt(plan, 1)) IN
    /\ Commit(Obs("GetRules", "wait", LimbsZero, << >>, plan, Len(wire), g.sent, IF g.ok THEN "nil" ELSE "err", g.errno, g.rules, g.pops, 0),
              g.w, g.ctr, pending)
    /\ UNCHANGED << clearPid, onceDone, ncloses >>

DoDelete(w0, ctr, rule, frames) ==
    LET q == Request(w0, ctr, AUDIT_DEL_RULE, rule, frames) IN
    IF Bug = "DeleteIgnoresAck" /\ q.got = "msg" THEN [q EXCEPT !.ret = "nil", !.errno = 0] ELSE q

AddRule(rule, plan) ==
    LET q == Request(wire, seqctr, AUDIT_ADD_RULE, rule, PlanAt(plan, 1)) IN
    /\ Commit(Obs("AddRule", "wait", LimbsZero, rule, plan, Len(wire), q.sent, q.ret, q.errno, << >>, q.pops, 0), q.w, q.ctr, pending)
    /\ UNCHANGED << clearPid, onceDone, ncloses >>

DeleteRule(rule, plan) ==
    LET q == DoDelete(wire, seqctr, rule, PlanAt(plan, 1)) IN
    /\ Commit(Obs("DeleteRule", "wait", LimbsZero, rule, plan, Len(wire), q.sent, q.ret, q.errno, << >>, q.pops, 0), q.w, q.ctr, pending)
    /\ UNCHANGED << clearPid, onceDone, ncloses >>

\* DeleteRules = GetRules, then DeleteRule for each rule until one fails
RECURSIVE DelLoop(_, _, _, _, _, _, _)
DelLoop(w, ctr, rules, i, plan, sent, pops) ==
    IF i > Len(rules) THEN [w |-> w, ctr |-> ctr, ret |-> "nil", errno |-> 0, sent |-> sent, pops |-> pops]
    ELSE LET q == DoDelete(w, ctr, rules[i], PlanAt(plan, i + 1)) IN
         IF q.ret = "err" THEN [w |-> q.w, ctr |-> q.ctr, ret |-> "err", errno |-> q.errno, sent |-> sent \o q.sent, pops |-> pops + q.pops]
         ELSE DelLoop(q.w, q.ctr, rules, i + 1, plan, sent \o q.sent, pops + q.pops)

DeleteRules(plan) ==
    LET g == DoGetRules(wire, seqctr, PlanAt(plan, 1)) IN
    IF ~g.ok THEN
        /\ Commit(Obs("DeleteRules", "wait", LimbsZero, << >>, plan, Len(wire), g.sent, "err", g.errno, << >>, g.pops, 0), g.w, g.ctr, pending)
        /\ UNCHANGED << clearPid, onceDone, ncloses >>
    ELSE LET d == DelLoop(g.w, g.ctr, g.rules, 1, plan, g.sent, g.pops) IN
        /\ Commit(Obs("DeleteRules", "wait", LimbsZero, << >>, plan, Len(wire), d.sent, d.ret, d.errno, << >>, d.pops, 0), d.w, d.ctr, pending)
        /\ UNCHANGED << clearPid, onceDone, ncloses >>

\* what the API can express: SetEnabled takes a bool, SetImmutable no argument
Effective(name, v) ==
    IF name = "SetEnabled" THEN (IF v.hi = 0 /\ v.lo = 0 THEN LimbsZero ELSE Limbs(1))
    ELSE IF name = "SetImmutable" THEN Limbs(2)
    ELSE v

\* the Set* family
Setter(name, value0, mode, plan) ==
    LET value == Effective(name, value0)
        payload == StatusPayload(SetterMask(name), SetterField(name), value)
        s == seqctr + 1
    IN  /\ clearPid' = (clearPid \/ name = "SetPID")
        /\ UNCHANGED << onceDone, ncloses >>
        /\ IF mode = "nowait" THEN
               Commit(Obs(name, mode, value, << >>, plan, Len(wire), << Sent(AUDIT_SET, s, payload) >>, "nil", 0, << >>, 0, 0),
                      wire \o Resolve(PlanAt(plan, 1), s), s, Append(pending, s))
           ELSE LET q == Request(wire, seqctr, AUDIT_SET, payload, PlanAt(plan, 1)) IN
               Commit(Obs(name, mode, value, << >>, plan, Len(wire), q.sent, q.ret, q.errno, << >>, q.pops, 0), q.w, q.ctr, pending)

\* WaitForPendingACKs: consume the ACKs of pending requests in order, stop at the first error
RECURSIVE AckLoop(_, _, _, _)
AckLoop(w, pend, i, pops) ==
    IF i > Len(pend) THEN [w |-> w, ret |-> "nil", errno |-> 0, pops |-> pops, consumed |-> i - 1]
    ELSE LET r == GetReply(w, pend[i], pops)
             v == IF r.res = "msg" THEN AckVerdict(r.f) ELSE -1
         IN  IF v # 0 THEN [w |-> r.w, ret |-> "err", errno |-> IF v > 0 THEN v ELSE 0, pops |-> r.pops, consumed |-> i]
             ELSE AckLoop(r.w, pend, i + 1, r.pops)

WaitForPendingACKs ==
    LET a == AckLoop(wire, pending, 1, 0)
        rest == IF Bug = "AcksNotForgotten" THEN pending ELSE SubSeq(pending, a.consumed + 1, Len(pending))
    IN  /\ Commit(Obs("WaitForPendingACKs", "wait", LimbsZero, << >>, << >>, Len(wire), << >>, a.ret, a.errno, << >>, a.pops, 0),
                  a.w, seqctr, rest)
        /\ UNCHANGED << clearPid, onceDone, ncloses >>

\* Close: once { if clearPid: AUDIT_SET{PID=0} NoWait ; Netlink.Close }
Close(plan) ==
    IF onceDone THEN
        /\ Commit(Obs("Close", "wait", LimbsZero, << >>, plan, Len(wire), << >>, "nil", 0, << >>, 0, 0), wire, seqctr, pending)
        /\ UNCHANGED << clearPid, onceDone, ncloses >>
    ELSE
        LET s == seqctr + 1
            payload == StatusPayload(AUDIT_STATUS_PID, "pid", LimbsZero)
        IN  /\ onceDone' = TRUE /\ ncloses' = ncloses + 1 /\ UNCHANGED clearPid
            /\ IF clearPid THEN
                   Commit(Obs("Close", "wait", LimbsZero, << >>, plan, Len(wire), << Sent(AUDIT_SET, s, payload) >>, "nil", 0, << >>, 0, 1),
                          wire \o Resolve(PlanAt(plan, 1), s), s, Append(pending, s))
               ELSE
                   Commit(Obs("Close", "wait", LimbsZero, << >>, plan, Len(wire), << >>, "nil", 0, << >>, 0, 1), wire, seqctr, pending)

\* GetStatusAsync(requireACK): send AUDIT_GET and return at once; the caller reads the answers
\* with Receive (the way Beats uses the client)
GetStatusAsync(requireACK, plan) ==
    LET s == seqctr + 1
        flags == IF requireACK THEN NLM_F_REQUEST + NLM_F_ACK ELSE NLM_F_REQUEST
    IN  /\ Commit([Obs("GetStatusAsync", "nowait", IF requireACK THEN Limbs(1) ELSE LimbsZero, << >>, plan, Len(wire),
                        << [Sent(AUDIT_GET, s, << >>) EXCEPT !.flags = flags] >>, "nil", 0, << >>, 0, 0) EXCEPT !.rtype = 0],
                  wire \o Resolve(PlanAt(plan, 1), s), s, pending)
        /\ UNCHANGED << clearPid, onceDone, ncloses >>

\* Receive(nonBlocking): one datagram from the socket, whatever it is
Receive ==
    IF Len(wire) = 0 THEN
        /\ Commit([Obs("Receive", "wait", LimbsZero, << >>, << >>, 0, << >>, "err", 0, << >>, 0, 0) EXCEPT !.rtype = 0], wire, seqctr, pending)
        /\ UNCHANGED << clearPid, onceDone, ncloses >>
    ELSE LET f == Head(wire) IN
        /\ Commit([Obs("Receive", "wait", LimbsZero, << >>, << >>, Len(wire), << >>, IF f.k = "msg" THEN "nil" ELSE "err", 0,
                        IF f.k = "msg" THEN << f.payload >> ELSE << >>, 1, 0) EXCEPT !.rtype = IF f.k = "msg" THEN f.type ELSE 0],
                  Tail(wire), seqctr, pending)
        /\ UNCHANGED << clearPid, onceDone, ncloses >>

Init ==
    /\ wire = << >> /\ seqctr = 0 /\ pending = << >> /\ clearPid = FALSE /\ onceDone = FALSE /\ ncloses = 0
    /\ rec = [k |-> "init"]
=============================================================================
