---------------------------- MODULE ClientMonitor ----------------------------
(* Property monitors for the audit client family, written from the property *)
(* statements and the Linux UAPI only.  Each operation record carries what  *)
(* a simulated kernel behind the exported Netlink field saw and did:        *)
(*   plan  - per request the client sends, the frames the kernel queues     *)
(*   sent  - the requests the kernel received (type, flags, seq, payload)   *)
(*   ret / errid / data - what the method returned                          *)
(*   pops  - frames taken from the socket during the call; closes; left     *)
(*                                                                          *)
(*   C08  the command's verdict is the kernel's verdict for that request    *)
(*   C16  AUDIT_SET / AUDIT_GET requests and status decoding per UAPI       *)
(*   C17  NoWait ACK bookkeeping, Close once-only, returned data stable     *)
EXTENDS Integers, Sequences, FiniteSets, TLC, Bytes, AuditWire

Flag(p, w) == [prop |-> p, why |-> w]

\* ---- reading a kernel script the way the statement does -------------------------
\* Skip transient failures (at most 9 in a row are in the quantifier) and
\* unsolicited sequence-0 records; the first other frame is the kernel's answer.
RECURSIVE NextAnswer(_, _, _)
NextAnswer(fr, i, run) ==
    IF i > Len(fr) THEN [kind |-> "none", i |-> i]
    ELSE IF fr[i].k \in {"eintr", "eagain"} THEN
            IF run + 1 >= 10 THEN [kind |-> "unjudged", i |-> i] ELSE NextAnswer(fr, i + 1, run + 1)
    ELSE IF fr[i].k \in {"hard", "short"} THEN [kind |-> "broken", i |-> i + 1]
    ELSE IF fr[i].rel = "zero" THEN NextAnswer(fr, i + 1, 0)
    ELSE [kind |-> "msg", i |-> i + 1]

\* the kernel's verdict on one request: [v, i]
\*   v = 0 acknowledged with errno 0; v > 0 errno; -1 no valid acknowledgement; -2 outside the quantifier
AckOf(fr, from) ==
    LET a == NextAnswer(fr, from, 0) IN
    IF a.kind = "unjudged" THEN [v |-> -2, i |-> a.i]
    ELSE IF a.kind # "msg" THEN [v |-> -1, i |-> a.i]
    ELSE LET f == fr[a.i - 1] IN
         IF f.rel # "own" \/ f.type # NLMSG_ERROR \/ Len(f.payload) < 4 THEN [v |-> -1, i |-> a.i]
         ELSE LET e == AckErrno(f.payload) IN
              IF e.hi # 0 THEN [v |-> -1, i |-> a.i] ELSE [v |-> e.lo, i |-> a.i]

\* judge ret/errid against a verdict
VerdictFlags(name, v, o) ==
    IF v = -2 THEN << >>
    ELSE IF v = 0 THEN
        IF o.ret # "nil" THEN << Flag("C08", name \o " failed although the kernel acknowledged the request with errno 0") >> ELSE << >>
    ELSE IF o.ret = "nil" THEN
        << Flag("C08", name \o " returned nil although the kernel did not acknowledge the request with errno 0") >>
    ELSE IF v > 0 /\ ~(\E j \in 1..Len(o.errid) : o.errid[j] = v) THEN
        << Flag("C08", name \o " returned an error that does not identify the kernel's errno") >>
    ELSE << >>

PlanAt(plan, n) == IF n <= Len(plan) THEN plan[n] ELSE << >>

\* ---- GetStatus ---------------------------------------------------------------------
\* returned status (44 bytes in UAPI field order, as re-serialised by the harness) vs the reply payload
StatusMatches(ret44, reply) ==
    \A i \in 1..11 :
        IF Covered(reply, i) THEN LimbsEq(WordAt(ret44, i), WordAt(reply, i))
        ELSE IF Uncovered(reply, i) THEN LimbsEq(WordAt(ret44, i), LimbsZero)
        ELSE TRUE      \* a partially covered word is not constrained

\* The kernel sends the status from a thread of its own: it may overtake the acknowledgement.  A client may
\* refuse that order (the code as it stands does); one that accepts it must still return the kernel's fields.
JudgeGetStatusReplyFirst(o, fr, i) ==
    LET f  == fr[i - 1]
        a2 == AckOf(fr, i)
    IN  IF o.ret # "nil" \/ a2.v = -2 THEN << >>
        ELSE IF a2.v # 0 THEN << Flag("C08", "GetStatus returned nil although the kernel did not acknowledge the request with errno 0") >>
        ELSE IF Len(o.data) # 1 \/ Len(o.data[1]) # SizeofAuditStatus THEN << Flag("C08", "GetStatus returned no status") >>
        ELSE IF ~StatusMatches(o.data[1], f.payload)
             THEN << Flag("C08", "GetStatus returned fields that differ from the kernel's reply"),
                     Flag("C16", "status decoded differently from the audit_status layout") >>
        ELSE << >>

JudgeGetStatus(o) ==
    LET fr == PlanAt(o.plan, 1)
        a  == AckOf(fr, 1)
        n1 == NextAnswer(fr, 1, 0)
    IN  IF n1.kind = "msg" /\ fr[n1.i - 1].rel = "own" /\ fr[n1.i - 1].type = AUDIT_GET
           /\ Len(fr[n1.i - 1].payload) >= MinSizeofAuditStatus
        THEN JudgeGetStatusReplyFirst(o, fr, n1.i)
        ELSE IF a.v # 0 THEN VerdictFlags("GetStatus", a.v, o)
        ELSE LET r == NextAnswer(fr, a.i, 0) IN
             IF r.kind = "unjudged" THEN << >>
             ELSE IF r.kind # "msg" THEN
                  (IF o.ret = "nil" THEN << Flag("C08", "GetStatus returned a status the kernel never sent") >> ELSE << >>)
             ELSE LET f == fr[r.i - 1] IN
                  IF f.rel = "own" /\ f.type = AUDIT_GET /\ Len(f.payload) >= MinSizeofAuditStatus THEN
                      \* every reply of at least the 2.6.32 size is a status (C16: all reply lengths)
                      IF o.ret # "nil" THEN << Flag("C08", "GetStatus failed although the kernel acknowledged and replied"),
                                               Flag("C16", "GetStatus did not return the fields of a reply of at least the 2.6.32 size") >>
                      ELSE IF Len(o.data) # 1 \/ Len(o.data[1]) # SizeofAuditStatus THEN << Flag("C08", "GetStatus returned no status"),
                                               Flag("C16", "GetStatus did not return the fields of a reply of at least the 2.6.32 size") >>
                      ELSE IF ~StatusMatches(o.data[1], f.payload)
                           THEN << Flag("C08", "GetStatus returned fields that differ from the kernel's reply"),
                                   Flag("C16", "status decoded differently from the audit_status layout") >>
                      ELSE << >>
                  ELSE IF o.ret = "nil" THEN << Flag("C08", "GetStatus accepted a reply that is not an AUDIT_GET message for its request") >>
                  ELSE << >>

\* ---- GetRules -------------------------------------------------------------------------
\* walk the data frames: [kind: "done"|"bad"|"unjudged", rules, i]
RECURSIVE RulesOf(_, _, _)
RulesOf(fr, from, acc) ==
    LET r == NextAnswer(fr, from, 0) IN
    IF r.kind = "unjudged" THEN [kind |-> "unjudged", rules |-> acc]
    ELSE IF r.kind # "msg" THEN [kind |-> "bad", rules |-> acc]
    ELSE LET f == fr[r.i - 1] IN
         IF f.rel # "own" THEN [kind |-> "bad", rules |-> acc]
         ELSE IF f.type = NLMSG_DONE THEN [kind |-> "done", rules |-> acc]
         ELSE IF f.type = AUDIT_LIST_RULES THEN RulesOf(fr, r.i, Append(acc, f.payload))
         ELSE [kind |-> "bad", rules |-> acc]

\* [v, rules]: v as in AckOf, or -1 when the listing itself is broken
ListingOf(fr) ==
    LET a == AckOf(fr, 1) IN
    IF a.v # 0 THEN [v |-> a.v, rules |-> << >>]
    ELSE LET l == RulesOf(fr, a.i, << >>) IN
         IF l.kind = "done" THEN [v |-> 0, rules |-> l.rules]
         ELSE IF l.kind = "unjudged" THEN [v |-> -2, rules |-> << >>]
         ELSE [v |-> -1, rules |-> << >>]

JudgeGetRules(o) ==
    LET l == ListingOf(PlanAt(o.plan, 1)) IN
    VerdictFlags("GetRules", l.v, o)
    \o (IF l.v = 0 /\ o.ret = "nil" /\ o.data # l.rules
        THEN << Flag("C08", "GetRules returned rule data that differs from what the kernel sent") >> ELSE << >>)

\* DeleteRules: the listing, then one delete per listed rule; the first failure decides
RECURSIVE FirstDeleteVerdict(_, _, _)
FirstDeleteVerdict(plan, n, i) ==
    IF i > n THEN 0
    ELSE LET a == AckOf(PlanAt(plan, i + 1), 1) IN
         IF a.v # 0 THEN a.v ELSE FirstDeleteVerdict(plan, n, i + 1)

JudgeDeleteRules(o) ==
    LET l == ListingOf(PlanAt(o.plan, 1)) IN
    IF l.v # 0 THEN VerdictFlags("DeleteRules", l.v, o)
    ELSE VerdictFlags("DeleteRules", FirstDeleteVerdict(o.plan, Len(l.rules), 1), o)

\* ---- C16: what a setter must put on the wire ----------------------------------------------
SetterNames == {"SetEnabled", "SetImmutable", "SetFailure", "SetPID", "SetRateLimit", "SetBacklogLimit", "SetBacklogWaitTime"}

MaskOf(name) ==
    CASE name = "SetEnabled" -> AUDIT_STATUS_ENABLED
      [] name = "SetImmutable" -> AUDIT_STATUS_ENABLED
      [] name = "SetFailure" -> AUDIT_STATUS_FAILURE
      [] name = "SetPID" -> AUDIT_STATUS_PID
      [] name = "SetRateLimit" -> AUDIT_STATUS_RATE_LIMIT
      [] name = "SetBacklogLimit" -> AUDIT_STATUS_BACKLOG_LIMIT
      [] name = "SetBacklogWaitTime" -> AUDIT_STATUS_BACKLOG_WAIT_TIME
WordOf(name) ==      \* 1-based index of the audit_status word that carries the value
    CASE name \in {"SetEnabled", "SetImmutable"} -> 2
      [] name = "SetFailure" -> 3
      [] name = "SetPID" -> 4
      [] name = "SetRateLimit" -> 5
      [] name = "SetBacklogLimit" -> 6
      [] name = "SetBacklogWaitTime" -> 10

\* the value the kernel must see: o.value is what the caller asked for (for
\* SetImmutable the UAPI value 2, for SetFailure the UAPI number of the mode
\* the caller named, for SetEnabled 1/0)
SetRequestOk(s, name, value) ==
    /\ s.type = AUDIT_SET
    /\ s.flags = NLM_F_REQUEST + NLM_F_ACK
    /\ Len(s.payload) = SizeofAuditStatus
    /\ \A i \in 1..11 :
          LimbsEq(WordAt(s.payload, i),
                  IF i = 1 THEN Limbs(MaskOf(name)) ELSE IF i = WordOf(name) THEN value ELSE LimbsZero)

JudgeSetterWire(o) ==
    IF Len(o.sent) # 1 THEN << Flag("C16", o.name \o " did not send exactly one request") >>
    ELSE IF ~SetRequestOk(o.sent[1], o.name, o.value)
    THEN << Flag("C16", o.name \o " request is not AUDIT_SET|REQUEST|ACK with a full audit_status holding exactly its mask bit and value") >>
    ELSE << >>

JudgeGetStatusWire(o) ==
    IF Len(o.sent) # 1 THEN << Flag("C16", "GetStatus did not send exactly one request") >>
    ELSE IF o.sent[1].type # AUDIT_GET \/ o.sent[1].flags # NLM_F_REQUEST + NLM_F_ACK \/ Len(o.sent[1].payload) # 0
    THEN << Flag("C16", "GetStatus request is not an empty AUDIT_GET with REQUEST|ACK") >>
    ELSE << >>

\* ---- monitor state -----------------------------------------------------------------------
\* a request whose Send failed never reached the kernel: nothing is queued for it, nothing is pending
SendFailed(fr) == Len(fr) > 0 /\ fr[1].k = "sendfail"
RECURSIVE FlattenPlan(_, _)
FlattenPlan(plan, i) == IF i > Len(plan) THEN << >> ELSE (IF SendFailed(plan[i]) THEN << >> ELSE plan[i]) \o FlattenPlan(plan, i + 1)

MonInit ==
    [ mwire  |-> << >>,     \* every frame the kernel queued and the client has not taken yet (X-ASYNC)
      pend   |-> << >>,     \* frames of each NoWait request whose ACK has not been consumed, in order
      desync |-> FALSE,     \* a malformed or out-of-quantifier script left the socket in an unknown state
      setpid |-> FALSE,
      closed |-> FALSE,
      flags  |-> << >> ]

\* WaitForPendingACKs: walk the pending requests in order
\* returns [v, consumed, pops]
RECURSIVE WaitWalk(_, _, _)
WaitWalk(pend, i, pops) ==
    IF i > Len(pend) THEN [v |-> 0, consumed |-> i - 1, pops |-> pops]
    ELSE LET a == AckOf(pend[i], 1) IN
         IF a.v = 0 THEN WaitWalk(pend, i + 1, pops + (a.i - 1))
         ELSE [v |-> a.v, consumed |-> i, pops |-> pops + (a.i - 1)]

IsWaitCmd(o) == o.mode = "wait" /\ o.name \in (SetterNames \cup {"AddRule", "DeleteRule", "GetStatus", "GetRules", "DeleteRules"})

StepOp(m0, o) ==
    LET m == [m0 EXCEPT !.flags = << >>]
        clean == ~m.desync /\ o.left_before = 0 /\ Len(m.pend) = 0
        \* C08: verdicts (only on a socket with nothing outstanding)
        f08 == IF ~clean \/ ~IsWaitCmd(o) THEN << >>
               ELSE IF o.name = "GetStatus" THEN JudgeGetStatus(o)
               ELSE IF o.name = "GetRules" THEN JudgeGetRules(o)
               ELSE IF o.name = "DeleteRules" THEN JudgeDeleteRules(o)
               ELSE VerdictFlags(o.name, AckOf(PlanAt(o.plan, 1), 1).v, o)
        \* C08, last clause: a command that finds an unconsumed NoWait acknowledgement ahead of its own reply has met
        \* a reply with another request's sequence number - whatever it does with it, it may not report success
        ackAhead == ~m.desync /\ Len(m.pend) > 0 /\ \E i \in 1..Len(m.mwire) : m.mwire[i].k = "msg" /\ m.mwire[i].rel = "own"
        f08x == IF IsWaitCmd(o) /\ ackAhead /\ o.ret = "nil"
                THEN << Flag("C08", o.name \o " reported success although the reply it met first carried another request's sequence number") >>
                ELSE << >>
        \* C16: request bytes
        f16 == IF o.name \in SetterNames THEN JudgeSetterWire(o)
               ELSE IF o.name = "GetStatus" THEN JudgeGetStatusWire(o)
               ELSE << >>
        \* C17
        w == WaitWalk(m.pend, 1, 0)
        f17 ==
          IF o.name \in SetterNames /\ o.mode = "nowait" THEN
               (IF o.pops # 0 THEN << Flag("C17", "a NoWait request consumed frames from the socket") >> ELSE << >>)
               \o (IF SendFailed(PlanAt(o.plan, 1)) THEN
                       (IF o.ret = "nil" THEN << Flag("C17", "a NoWait request returned nil although it could not be sent") >> ELSE << >>)
                   ELSE IF o.ret # "nil" THEN << Flag("C17", "a NoWait request failed although it was sent") >> ELSE << >>)
          ELSE IF o.name = "WaitForPendingACKs" /\ ~m.desync /\ w.v # -2 THEN
               (IF w.v = 0 /\ o.ret # "nil" THEN << Flag("C17", "WaitForPendingACKs failed although every pending ACK carried errno 0") >>
                ELSE IF w.v # 0 /\ o.ret = "nil" THEN << Flag("C17", "WaitForPendingACKs returned nil although a pending ACK carried an error") >>
                ELSE IF w.v > 0 /\ ~(\E j \in 1..Len(o.errid) : o.errid[j] = w.v)
                     THEN << Flag("C17", "WaitForPendingACKs did not return the first kernel error") >>
                ELSE << >>)
               \o (IF w.v >= 0 /\ o.pops # w.pops
                   THEN << Flag("C17", "WaitForPendingACKs did not consume exactly the outstanding ACKs up to the first error (re-waited for consumed ACKs, or skipped some)") >>
                   ELSE << >>)
          ELSE IF o.name = "Close" THEN
               LET wantClose == IF m.closed THEN 0 ELSE 1
                   pidClear(s) == SetRequestOk(s, "SetPID", LimbsZero)
               IN  (IF o.closes # wantClose THEN << Flag("C17", "Close did not close the socket exactly once over the client's life") >> ELSE << >>)
                   \o (IF m.closed /\ Len(o.sent) # 0 THEN << Flag("C17", "a later Close sent a request") >>
                       ELSE IF ~m.closed /\ m.setpid /\ ~(Len(o.sent) = 1 /\ pidClear(o.sent[1]))
                            THEN << Flag("C17", "Close after SetPID did not first clear the audit PID with one AUDIT_SET{PID=0}") >>
                       ELSE IF ~m.closed /\ ~m.setpid /\ Len(o.sent) # 0
                            THEN << Flag("C17", "Close without SetPID sent a request") >>
                       ELSE << >>)
          ELSE << >>
        \* beyond the listed properties (X-ASYNC): GetStatusAsync's request, and Receive handing out the
        \* kernel's frames one at a time, in order, unchanged
        w1 == m.mwire \o FlattenPlan(o.plan, 1)
        fx ==
          IF o.name = "GetStatusAsync" THEN
               (IF Len(o.sent) # 1 \/ o.sent[1].type # AUDIT_GET \/ Len(o.sent[1].payload) # 0
                   \/ o.sent[1].flags # (IF o.value.lo = 1 THEN NLM_F_REQUEST + NLM_F_ACK ELSE NLM_F_REQUEST)
                THEN << Flag("X-ASYNC", "GetStatusAsync did not send an empty AUDIT_GET with REQUEST (and ACK only when asked)") >> ELSE << >>)
               \o (IF o.pops # 0 \/ o.ret # "nil" THEN << Flag("X-ASYNC", "GetStatusAsync waited for or consumed a reply") >> ELSE << >>)
          ELSE IF o.name = "Receive" THEN
               IF Len(w1) = 0 THEN (IF o.ret = "nil" THEN << Flag("X-ASYNC", "Receive returned a message from an empty socket") >> ELSE << >>)
               ELSE LET f == w1[1] IN
                    IF f.k = "msg" THEN
                         (IF o.ret # "nil" \/ o.rtype # f.type \/ o.data # << f.payload >> \/ o.pops # 1
                          THEN << Flag("X-ASYNC", "Receive did not hand out the next kernel frame (type and payload) unchanged") >> ELSE << >>)
                    ELSE (IF o.ret = "nil" THEN << Flag("X-ASYNC", "Receive returned a message although the read failed") >> ELSE << >>)
          ELSE << >>
        \* next state
        ackv == AckOf(PlanAt(o.plan, 1), 1).v
        newPend ==
          IF o.name \in SetterNames /\ o.mode = "nowait" /\ ~SendFailed(PlanAt(o.plan, 1)) THEN Append(m.pend, PlanAt(o.plan, 1))
          ELSE IF o.name = "Close" /\ ~m.closed /\ m.setpid /\ ~SendFailed(PlanAt(o.plan, 1)) THEN Append(m.pend, PlanAt(o.plan, 1))
          ELSE IF o.name = "WaitForPendingACKs" THEN SubSeq(m.pend, w.consumed + 1, Len(m.pend))
          ELSE m.pend
        \* any script outside the well-formed / in-quantifier shapes leaves the socket unknown
        bad(fr) == \E i \in 1..Len(fr) : fr[i].k \in {"hard", "short"} \/ (fr[i].k = "msg" /\ fr[i].rel = "foreign")
        strange == (\E n \in 1..Len(o.plan) : bad(o.plan[n]))
                   \/ (IsWaitCmd(o) /\ (~clean \/ \E n \in 1..Len(o.plan) : AckOf(o.plan[n], 1).v \in {-1, -2}))
                   \/ (o.name = "WaitForPendingACKs" /\ w.v \in {-1, -2})
                   \/ (o.name \in {"GetStatus", "GetRules", "DeleteRules"} /\ o.ret # "nil")
                   \/ (o.name = "WaitForPendingACKs" /\ o.pops # w.pops)
                   \* the asynchronous API leaves and takes frames outside the request/ACK discipline
                   \/ o.name \in {"GetStatusAsync", "Receive"}
    IN  [m EXCEPT !.flags = f08 \o f08x \o f16 \o f17 \o fx,
                  !.mwire = SubSeq(w1, Min2(o.pops, Len(w1)) + 1, Len(w1)),
                  !.pend = newPend,
                  !.desync = @ \/ strange,
                  !.setpid = @ \/ o.name = "SetPID",
                  !.closed = @ \/ o.name = "Close"]

\* end of a trace: data returned earlier must still read the same
StepEnd(m0, o) ==
    [m0 EXCEPT !.flags =
        (IF ~o.rules_stable THEN << Flag("C17", "rule data returned by GetRules changed after later receives") >> ELSE << >>)
        \o (IF ~o.status_stable
            THEN << Flag("C16", "a status returned by GetStatus no longer holds the fields the kernel sent for that request (a later call changed it)"),
                    Flag("C08", "data returned by GetStatus changed after a later call") >>
            ELSE << >>)]

=============================================================================
