------------------------------ MODULE MC_Client ------------------------------
(* AuditClient model || ClientMonitor, bounded for TLC.  The kernel's        *)
(* scripts are drawn from a small alphabet per profile; every maximal        *)
(* behaviour is dumped (Dump = TRUE) for replay against the real client.     *)
EXTENDS AuditClient, Json

CONSTANTS MaxOps, Dump, Profile

VARIABLES mon, hist, nops

CM == INSTANCE ClientMonitor

vars == << cvars, rec, mon, hist, nops >>

\* ---- the kernel's script alphabet ------------------------------------------------
Fr(k, type, rel, payload) == [k |-> k, type |-> type, rel |-> rel, payload |-> payload]
Ack(e)    == Fr("msg", NLMSG_ERROR, "own", AckPayload(e))
Noise     == Fr("msg", 1300, "zero", << 65, 66 >>)
Eintr     == Fr("eintr", 0, "own", << >>)
Eagain    == Fr("eagain", 0, "own", << >>)
Foreign   == Fr("msg", NLMSG_ERROR, "foreign", AckPayload(0))
BadType   == Fr("msg", NLMSG_DONE, "own", AckPayload(0))
ShortAck  == Fr("msg", NLMSG_ERROR, "own", << 0, 0 >>)
Hard      == Fr("hard", 0, "own", << >>)
ShortGram == Fr("short", 0, "own", << 1, 2, 3 >>)
Done      == Fr("msg", NLMSG_DONE, "own", << >>)
Rule(p)   == Fr("msg", AUDIT_LIST_RULES, "own", p)
StatusReply(n) == Fr("msg", AUDIT_GET, "own", [i \in 1..n |-> (i * 7) % 256])

Five    == [i \in 1..5 |-> Eintr]
\* runs of at most 9 transient failures, but more than 9 in total within one wait
Pre     == { << >>, << Noise >>, << Eintr >>, << Noise, Eintr, Noise >>, Five \o << Noise >> \o Five }
Errnos  == { 0, EPERM, EEXIST }
GoodAck == { p \o << Ack(e) >> : p \in Pre, e \in Errnos }
BadAck  == { << Foreign >>, << BadType >>, << ShortAck >>, << Hard >>, << ShortGram >>, << Noise >> }
AckScripts == GoodAck \cup BadAck

Nine == [i \in 1..9 |-> Eintr]

StatusScripts ==
    { a : a \in { s \in AckScripts : s[Len(s)] # Ack(0) } }
    \cup { p \o << Ack(0) >> \o mid \o << StatusReply(n) >> : p \in { << >>, << Noise >> }, mid \in { << >>, << Noise >>, << Eintr >> }, n \in {31, 32, 36, 38, 44, 48} }
    \cup { << Ack(0), Rule(<< 1 >>) >>, << Ack(0), Fr("msg", AUDIT_GET, "foreign", [i \in 1..44 |-> i]) >>, Nine \o << Ack(0), StatusReply(44) >> }

\* what is listed is the kernel's business: also the same payload twice in a row
RuleSets == { << >>, << Rule(<< 1 >>) >>, << Rule(<< 1, 2 >>), Noise, Rule(<< 3 >>) >>, << Rule(<< 4, 4 >>), Rule(<< 4, 4 >>) >> }
ListScripts ==
    { << Ack(EPERM) >>, << Foreign >>, << Noise, Ack(0), Rule(<< 9 >>), Hard >>, << Ack(0), Rule(<< 9 >>), StatusReply(32) >> }
    \cup { p \o << Ack(0) >> \o rs \o << Done >> : p \in { << >>, << Eintr >> }, rs \in RuleSets }

Plans1(S) == { << s >> : s \in S }

NoWaitScripts == { << Ack(0) >>, << Ack(EPERM) >>, << Noise, Ack(0) >>, << Eintr, Ack(EINVAL) >> }

Val(n) == Limbs(n)

Op ==
    IF Profile = "C08" THEN
        \/ \E p \in Plans1(StatusScripts) : GetStatus(p)
        \/ \E p \in Plans1(ListScripts) : GetRules(p)
        \/ \E p \in Plans1(AckScripts) : AddRule(<< 7, 7 >>, p)
        \/ \E p \in Plans1(AckScripts) : DeleteRule(<< 8 >>, p)
        \/ \E p \in Plans1(AckScripts) : Setter("SetRateLimit", Val(300), "wait", p)
        \/ \E l \in ListScripts, d1 \in { << Ack(0) >>, << Noise, Ack(EPERM) >>, << BadType >> }, d2 \in { << Ack(0) >>, << Ack(EINVAL) >> } :
               DeleteRules(<< l, d1, d2 >>)
    ELSE IF Profile = "C17" THEN
        \/ \E p \in Plans1(NoWaitScripts) : Setter("SetRateLimit", Val(5), "nowait", p)
        \/ \E p \in Plans1(NoWaitScripts) : Setter("SetPID", Val(4242), "nowait", p)
        \/ \E p \in Plans1({ << Ack(0) >>, << Ack(EPERM) >> }) : Setter("SetBacklogLimit", Val(8192), "wait", p)
        \/ WaitForPendingACKs
        \/ \E p \in Plans1({ << Ack(0) >> }) : Close(p)
        \/ \E p \in Plans1({ << Ack(0), Rule(<< 1 >>), Done >> }) : GetRules(p)
    ELSE IF Profile = "ASYNC" THEN
        \/ \E ra \in BOOLEAN, p \in Plans1({ << StatusReply(44) >>, << Ack(0), StatusReply(32) >>, << Noise, Ack(EPERM) >>, << Eintr, StatusReply(44) >> }) :
               GetStatusAsync(ra, p)
        \/ Receive
        \/ \E p \in Plans1({ << Ack(0) >>, << Noise, Ack(0) >> }) : Setter("SetRateLimit", Val(5), "nowait", p)
        \/ WaitForPendingACKs
    ELSE \* "C16": every setter, both modes
        \/ \E n \in CM!SetterNames, v \in { 0, 1, 2, 65535, 65536 }, md \in { "wait", "nowait" } :
               Setter(n, Val(v), md, << << Ack(0) >> >>)
        \/ \E p \in Plans1({ << Ack(0), StatusReply(32) >>, << Ack(0), StatusReply(44) >>, << Ack(0), StatusReply(41) >> }) : GetStatus(p)
        \/ WaitForPendingACKs

MCInit ==
    /\ Init /\ mon = CM!MonInit /\ hist = << >> /\ nops = 0

MCNext ==
    /\ nops < MaxOps
    /\ Op
    /\ nops' = nops + 1
    /\ mon' = CM!StepOp(mon, rec')
    /\ hist' = IF Dump THEN Append(hist, rec') ELSE hist

MCSpec == MCInit /\ [][MCNext]_vars

NoFlags == Len(mon.flags) = 0
\* the monitor's pending list mirrors the model's
PendingTracked == ~mon.desync => Len(mon.pend) = Len(pending)
CloseOnce == ncloses <= 1
DumpBehaviours == (Dump /\ nops = MaxOps) => PrintT("BEH " \o ToJson(hist))
=============================================================================
