------------------------------- MODULE Netlink -------------------------------
(* Model of libaudit.NetlinkClient (netlink.go).                            *)
(*   Send    : fill pid if 0 ; seq := atomic add(counter, 1) ; serialize ;  *)
(*             sendto(kernel) ; return seq                                  *)
(*   Receive : recvfrom ; reject datagrams shorter than a header ; reject   *)
(*             any sender whose netlink port id is not 0 (the kernel) ;     *)
(*             hand the bytes to the parser                                 *)
(* Several goroutines may call Send on one client.  The only shared state   *)
(* is the sequence counter; Bug = "LoadStore" replaces the atomic add by a  *)
(* load followed by a store (the seeded-bug configuration).                 *)
EXTENDS Integers, Sequences, FiniteSets, TLC

CONSTANTS Senders, PerSender, Bug

VARIABLES counter, pc, tmp, done, returned, wireSeqs

nvars == << counter, pc, tmp, done, returned, wireSeqs >>

Init ==
    /\ counter = 0
    /\ pc = [s \in Senders |-> "idle"]
    /\ tmp = [s \in Senders |-> 0]
    /\ done = [s \in Senders |-> 0]
    /\ returned = [s \in Senders |-> << >>]
    /\ wireSeqs = {}

\* atomic.AddUint32(&c.seq, 1) ; sendto
SendAtomic(s) ==
    /\ Bug = "none" /\ pc[s] = "idle" /\ done[s] < PerSender
    /\ counter' = counter + 1
    /\ returned' = [returned EXCEPT ![s] = Append(@, counter + 1)]
    /\ wireSeqs' = wireSeqs \cup {counter + 1}
    /\ done' = [done EXCEPT ![s] = @ + 1]
    /\ UNCHANGED << pc, tmp >>

\* the seeded bug: load, then store
Load(s) ==
    /\ Bug = "LoadStore" /\ pc[s] = "idle" /\ done[s] < PerSender
    /\ tmp' = [tmp EXCEPT ![s] = counter]
    /\ pc' = [pc EXCEPT ![s] = "loaded"]
    /\ UNCHANGED << counter, done, returned, wireSeqs >>
Store(s) ==
    /\ pc[s] = "loaded"
    /\ counter' = tmp[s] + 1
    /\ returned' = [returned EXCEPT ![s] = Append(@, tmp[s] + 1)]
    /\ wireSeqs' = wireSeqs \cup {tmp[s] + 1}
    /\ done' = [done EXCEPT ![s] = @ + 1]
    /\ pc' = [pc EXCEPT ![s] = "idle"]
    /\ UNCHANGED tmp

Next == \E s \in Senders : SendAtomic(s) \/ Load(s) \/ Store(s)
Spec == Init /\ [][Next]_nvars

\* ---- C18's sequence clause on the model -------------------------------------
AllReturned == UNION { { returned[s][i] : i \in 1..Len(returned[s]) } : s \in Senders }
TotalDone == LET RECURSIVE Sum(_)
                 Sum(S) == IF S = {} THEN 0 ELSE LET x == CHOOSE y \in S : TRUE IN done[x] + Sum(S \ {x})
             IN Sum(Senders)
Distinct == Cardinality(AllReturned) = TotalDone
Increasing == \A s \in Senders : \A i \in 1..(Len(returned[s]) - 1) : returned[s][i] < returned[s][i + 1]
Contiguous == AllReturned = 1..TotalDone
WireMatches == wireSeqs = AllReturned

\* ---- Receive's filter ---------------------------------------------------------
\* result of Receive on a datagram of length n from netlink port fromPid
ReceiveAccepts(n, fromPid) == n >= 16 /\ fromPid = 0
=============================================================================
