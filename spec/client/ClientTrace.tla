----------------------------- MODULE ClientTrace -----------------------------
(* Trace validation for the client family (C08, C16, C17): operation        *)
(* records logged by the simulated kernel and the harness around the real   *)
(* AuditClient are judged by ClientMonitor; per-record C16 cases            *)
(* (FromWireFormat, exported constants) by ClientCases.                     *)
EXTENDS Integers, Sequences, TLC, Json, IOUtils

CM == INSTANCE ClientMonitor
CC == INSTANCE ClientCases

Trace == ndJsonDeserialize(IOEnv.TRACE_FILE)

VARIABLES l, mon, tr
vars == << l, mon, tr >>

Init == l = 1 /\ mon = CM!MonInit /\ tr = 0 /\ TLCSet(1, 1)

Report(fl, line, t) ==
    \A i \in 1..Len(fl) :
        PrintT("FLAG " \o ToJson([prop |-> fl[i].prop, why |-> fl[i].why, line |-> line, trace |-> t]))

Next ==
    /\ l <= Len(Trace)
    /\ LET r == Trace[l] IN
         IF r.k = "reset" THEN mon' = CM!MonInit /\ tr' = r.trace
         ELSE IF r.k = "op" THEN mon' = CM!StepOp(mon, r) /\ tr' = tr
         ELSE IF r.k = "endtrace" THEN mon' = CM!StepEnd(mon, r) /\ tr' = tr
         ELSE IF r.k \in {"fromwire", "const"} THEN mon' = [mon EXCEPT !.flags = CC!Judge(r)] /\ tr' = r.trace
         ELSE mon' = [mon EXCEPT !.flags = << >>] /\ tr' = tr
    /\ l' = l + 1
    /\ Report(mon'.flags, l, tr')
    /\ TLCSet(1, l + 1)

Spec == Init /\ [][Next]_vars
AllConsumed == TLCGet(1) = Len(Trace) + 1
=============================================================================
