----------------------------- MODULE NetlinkInd -----------------------------
(* The sequence-number clause of C18 for an UNBOUNDED number of Sends, by   *)
(* an inductive invariant that Apalache discharges:                          *)
(*     Init => IndInv           (apalache-mc check --init=Init --length=0)   *)
(*     IndInv /\ Next => IndInv' (--init=IndInit --inv=IndInv --length=1)    *)
(*     IndInv => Safety                                                      *)
(* Senders are a fixed finite set; every Send is the atomic step             *)
(* "seq := atomic add(counter, 1)" of netlink.go.  (TLC checks the same      *)
(* model with bounded sends in Netlink.tla, including the load/store bug.)   *)
EXTENDS Integers, FiniteSets

CONSTANT
    \* @type: Set(Int);
    Senders

VARIABLES
    \* @type: Int;
    counter,
    \* @type: Int -> Set(Int);
    got,
    \* @type: Int -> Int;
    lastGot

CInit == Senders = {1, 2, 3, 4}

Init ==
    /\ counter = 0
    /\ got = [s \in Senders |-> {}]
    /\ lastGot = [s \in Senders |-> 0]

Send(s) ==
    /\ counter' = counter + 1
    /\ got' = [got EXCEPT ![s] = @ \union {counter + 1}]
    /\ lastGot' = [lastGot EXCEPT ![s] = counter + 1]

Next == \E s \in Senders : Send(s)

\* Apalache wants constant ranges: the symbolic universe of sequence numbers in the check.  The
\* pre-state of the inductive step uses 0..6, so the post-state stays within 0..7.
Universe == 1..7

\* every number handed out lies in 1..counter, no two senders share one, all of 1..counter are handed out,
\* and each sender's latest number is its largest
IndInv ==
    /\ counter >= 0
    /\ \A s \in Senders : \A n \in got[s] : 1 <= n /\ n <= counter
    /\ \A s \in Senders : 0 <= lastGot[s] /\ lastGot[s] <= counter
    /\ \A s, t \in Senders : s # t => got[s] \intersect got[t] = {}
    /\ \A n \in Universe : (n <= counter) => \E s \in Senders : n \in got[s]
    /\ \A s \in Senders : \A n \in got[s] : n <= lastGot[s]
    /\ \A s \in Senders : (got[s] = {} <=> lastGot[s] = 0)

\* for the inductive step the pre-state is any state satisfying the invariant (bounded only to
\* keep the symbolic sets finite; the argument does not depend on the bound)
IndInit ==
    /\ counter \in 0..6
    /\ got \in [Senders -> SUBSET (1..6)]
    /\ lastGot \in [Senders -> 0..6]
    /\ IndInv

\* what C18 states
Safety ==
    /\ \A s, t \in Senders : s # t => got[s] \intersect got[t] = {}       \* distinct across callers
    /\ \A s \in Senders : \A n \in got[s] : n <= lastGot[s]               \* increasing per caller
=============================================================================
