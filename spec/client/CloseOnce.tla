------------------------------ MODULE CloseOnce ------------------------------
(* AuditClient.Close called by several goroutines at once (C17).            *)
(* The code:  closeOnce.Do(func() { if clearPIDOnClose { set(PID=0, NoWait) }*)
(*                                  Netlink.Close() })                      *)
(* sync.Once runs the function in the first caller while every other caller *)
(* waits until it has finished, then returns without running it.            *)
(* Bug = "CheckThenAct" replaces Once by a flag that is loaded on entry and *)
(* stored after the work is done (the seeded-bug configuration).            *)
EXTENDS Integers, FiniteSets, TLC

CONSTANTS Closers, SetPidUsed, Bug

VARIABLES pc, onceState, pidClears, closes

vars == << pc, onceState, pidClears, closes >>

Init ==
    /\ pc = [c \in Closers |-> "call"]
    /\ onceState = "idle"           \* idle | running | done
    /\ pidClears = 0
    /\ closes = 0

\* sync.Once: the first caller claims the Once atomically (its internal mutex / CAS)
Claim(c) ==
    /\ Bug = "none" /\ pc[c] = "call" /\ onceState = "idle"
    /\ onceState' = "running"
    /\ pc' = [pc EXCEPT ![c] = "work"]
    /\ UNCHANGED << pidClears, closes >>

\* later callers wait for the running function, then return
WaitDone(c) ==
    /\ Bug = "none" /\ pc[c] = "call" /\ onceState = "done"
    /\ pc' = [pc EXCEPT ![c] = "ret"]
    /\ UNCHANGED << onceState, pidClears, closes >>

\* the seeded bug: load the flag, then act, then store it
Check(c) ==
    /\ Bug = "CheckThenAct" /\ pc[c] = "call"
    /\ pc' = [pc EXCEPT ![c] = IF onceState = "done" THEN "ret" ELSE "work"]
    /\ UNCHANGED << onceState, pidClears, closes >>

ClearPid(c) ==
    /\ pc[c] = "work"
    /\ pidClears' = IF SetPidUsed THEN pidClears + 1 ELSE pidClears
    /\ pc' = [pc EXCEPT ![c] = "close"]
    /\ UNCHANGED << onceState, closes >>

CloseSocket(c) ==
    /\ pc[c] = "close"
    /\ closes' = closes + 1
    /\ onceState' = "done"
    /\ pc' = [pc EXCEPT ![c] = "ret"]
    /\ UNCHANGED pidClears

Next == \E c \in Closers : Claim(c) \/ WaitDone(c) \/ Check(c) \/ ClearPid(c) \/ CloseSocket(c)
Spec == Init /\ [][Next]_vars /\ WF_vars(Next)

AllReturned == \A c \in Closers : pc[c] = "ret"
ClosedAtMostOnce == closes <= 1
PidClearedAtMostOnce == pidClears <= 1
ExactlyOnceWhenDone == AllReturned => (closes = 1 /\ pidClears = (IF SetPidUsed THEN 1 ELSE 0))
\* liveness: every caller returns (no caller waits forever on the Once)
EveryoneReturns == <>AllReturned
=============================================================================
