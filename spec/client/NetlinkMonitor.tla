--------------------------- MODULE NetlinkMonitor ---------------------------
(* C18 as per-record oracles plus a small accumulator for concurrent sends. *)
(* Records come from a real NetlinkClient on NETLINK_ROUTE (the kernel      *)
(* echoes a rejected request verbatim inside NLMSG_ERROR), from a second    *)
(* user-space netlink socket that sends datagrams to the client, and from   *)
(* AuditClient.Receive / the audit message parser on crafted buffers.       *)
EXTENDS Integers, Sequences, FiniteSets, TLC, Bytes, AuditWire

Flag(w) == [prop |-> "C18", why |-> w]

NInit == [ lastSeq |-> [x \in {} |-> 0],   \* goroutine -> last returned sequence number (limbs)
           rets    |-> {},                  \* << hi, lo >> of every returned sequence number
           want    |-> [x \in {} |-> 0],   \* << hi, lo >> -> frame that must be on the wire
           seen    |-> {},                  \* << hi, lo >> of the echoed frames
           flags   |-> << >> ]

Key(u) == << u.hi, u.lo >>
PutFn(f, k, v) == [x \in DOMAIN f \cup {k} |-> IF x = k THEN v ELSE f[x]]

\* what Send must have put on the wire
WireOf(r) == Frame(r.type, r.flags, r.ret_seq, IF r.pid_in.hi = 0 /\ r.pid_in.lo = 0 THEN r.port ELSE r.pid_in, r.payload)

\* the kernel's NLMSG_ERROR datagram: nlmsghdr(16) + errno(4) + echoed request
EchoedRequest(dg, n) == Slice(dg, 21, 20 + n)

SeqFlags(m, r) ==
    (IF Key(r.ret_seq) \in m.rets THEN << Flag("Send returned a sequence number it had returned before") >> ELSE << >>)
    \o (IF r.g \in DOMAIN m.lastSeq /\ ~LimbsLess(m.lastSeq[r.g], r.ret_seq)
        THEN << Flag("sequence numbers returned to one caller are not increasing") >> ELSE << >>)

NStep(m0, r) ==
    LET m == [m0 EXCEPT !.flags = << >>] IN
    IF r.k = "send" THEN
        \* one sequential Send whose echo was read back through Receive
        LET w == WireOf(r)
            full == r.full       \* the kernel echoes the whole request (error) or only its header (plain ACK)
            expect == IF full THEN w ELSE SubSeq(w, 1, 16)
            f1 == IF r.ret # "ok" THEN << Flag("Send failed on an open socket") >>
                  ELSE IF r.echo_ret # "msgs" THEN << Flag("Receive did not return the kernel's reply") >>
                  ELSE IF r.echo_type # NLMSG_ERROR THEN << Flag("Receive changed the type of the kernel's datagram") >>
                  ELSE IF EchoedRequest(r.echo, Len(expect)) # expect
                       THEN << Flag("the message on the wire is not nlmsghdr{len,type,flags,seq,pid} followed by the caller's payload") >>
                  ELSE IF r.echo_data # Payload(r.echo)
                       THEN << Flag("Receive changed the payload of the kernel's datagram") >>
                  ELSE << >>
        IN  [m EXCEPT !.flags = f1 \o SeqFlags(m, r),
                      !.rets = @ \cup {Key(r.ret_seq)},
                      !.lastSeq = PutFn(@, r.g, r.ret_seq)]
    ELSE IF r.k = "ssend" THEN
        \* flags without REQUEST and ACK: the kernel handles nothing and acknowledges nothing
        [m EXCEPT !.flags = (IF r.ret # "ok" THEN << Flag("Send failed on an open socket") >>
                             ELSE IF r.answered THEN << Flag("the kernel answered a message whose flags ask for no answer: the flags on the wire are not the caller's") >>
                             ELSE << >>) \o SeqFlags(m, r),
                  !.rets = @ \cup {Key(r.ret_seq)},
                  !.lastSeq = PutFn(@, r.g, r.ret_seq)]
    ELSE IF r.k = "csend" THEN
        \* a Send made concurrently with others; echoes are matched at "cend"
        [m EXCEPT !.flags = SeqFlags(m, r),
                  !.rets = @ \cup {Key(r.ret_seq)},
                  !.lastSeq = PutFn(@, r.g, r.ret_seq),
                  !.want = PutFn(@, Key(r.ret_seq), WireOf(r))]
    ELSE IF r.k = "cecho" THEN
        LET s == HdrSeq(EchoedRequest(r.echo, 16))
            k == Key(s)
            n == IF k \in DOMAIN m.want THEN Len(m.want[k]) ELSE 0
        IN  [m EXCEPT !.flags =
                 IF k \notin DOMAIN m.want THEN << Flag("a message with a sequence number no Send returned was on the wire") >>
                 ELSE IF k \in m.seen THEN << Flag("two messages on the wire carried the same sequence number") >>
                 ELSE IF EchoedRequest(r.echo, n) # m.want[k]
                      THEN << Flag("under concurrent Send the message on the wire is not the caller's header and payload") >>
                 ELSE << >>,
                      !.seen = @ \cup {k}]
    ELSE IF r.k = "cend" THEN
        [m EXCEPT !.flags = IF DOMAIN m.want # m.seen THEN << Flag("a concurrent Send's message never reached the wire intact") >> ELSE << >>,
                  !.want = [x \in {} |-> 0], !.seen = {}]
    ELSE IF r.k = "recv" THEN
        \* a datagram that arrived at the client's socket
        LET ok == r.from = "kernel" /\ Len(r.datagram) >= NLMSG_HDRLEN
        IN  [m EXCEPT !.flags =
                 IF ~ok /\ r.ret # "err" THEN << Flag("Receive returned data for a datagram that is short or not from the kernel") >>
                 ELSE IF ~ok /\ r.parser_called THEN << Flag("Receive handed a datagram that is short or not from the kernel to the parser") >>
                 ELSE IF ok /\ r.ret # "msgs" THEN << Flag("Receive rejected a datagram from the kernel") >>
                 ELSE IF ok /\ (r.type # HdrType(r.datagram) \/ r.data # Payload(r.datagram))
                      THEN << Flag("Receive changed the type or payload of a kernel datagram") >>
                 ELSE << >>]
    ELSE IF r.k = "parse" THEN
        \* the audit message parser (and AuditClient.Receive over a simulated transport)
        [m EXCEPT !.flags =
             IF r.ret = "panic" THEN << Flag("audit message parser panicked") >>
             ELSE IF Len(r.buf) < NLMSG_HDRLEN THEN
                  (IF r.ret # "err" THEN << Flag("audit message parser accepted a buffer shorter than a netlink header") >> ELSE << >>)
             ELSE IF r.ret # "msg" THEN << Flag("audit message parser rejected a buffer that holds a header") >>
             ELSE IF r.type # HdrType(r.buf) \/ r.data # Payload(r.buf)
                  THEN << Flag("audit message parser did not return the header type and everything after the 16-byte header") >>
             ELSE << >>]
    ELSE IF r.k = "race" THEN [m EXCEPT !.flags = << Flag("data race reported by the race detector in concurrent Send") >>]
    ELSE m
=============================================================================
