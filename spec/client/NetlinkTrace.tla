---------------------------- MODULE NetlinkTrace ----------------------------
EXTENDS Integers, Sequences, TLC, Json, IOUtils

NM == INSTANCE NetlinkMonitor

Trace == ndJsonDeserialize(IOEnv.TRACE_FILE)

VARIABLES l, mon, tr
vars == << l, mon, tr >>

Init == l = 1 /\ mon = NM!NInit /\ tr = 0 /\ TLCSet(1, 1)

Report(fl, line, t) ==
    \A i \in 1..Len(fl) :
        PrintT("FLAG " \o ToJson([prop |-> fl[i].prop, why |-> fl[i].why, line |-> line, trace |-> t]))

Next ==
    /\ l <= Len(Trace)
    /\ LET r == Trace[l] IN
         IF r.k = "reset" THEN mon' = NM!NInit /\ tr' = r.trace
         ELSE IF r.k = "meta" THEN UNCHANGED << mon, tr >>
         ELSE mon' = NM!NStep(mon, r) /\ tr' = (IF "trace" \in DOMAIN r THEN r.trace ELSE tr)
    /\ l' = l + 1
    /\ Report(mon'.flags, l, tr')
    /\ TLCSet(1, l + 1)

Spec == Init /\ [][Next]_vars
AllConsumed == TLCGet(1) = Len(Trace) + 1
=============================================================================
