------------------------------ MODULE AuditWire ------------------------------
(* Wire formats of the audit netlink protocol, from the Linux UAPI          *)
(* (include/uapi/linux/netlink.h, include/uapi/linux/audit.h), little       *)
(* endian.  32-bit quantities are limbs [hi, lo] (see Bytes.tla).           *)
EXTENDS Integers, Sequences, Bytes

\* ---- netlink.h ---------------------------------------------------------------
NLMSG_HDRLEN  == 16
NLMSG_NOOP    == 1
NLMSG_ERROR   == 2
NLMSG_DONE    == 3
NLM_F_REQUEST == 1
NLM_F_ACK     == 4

\* ---- audit.h -----------------------------------------------------------------
AUDIT_GET        == 1000
AUDIT_SET        == 1001
AUDIT_ADD_RULE   == 1011
AUDIT_DEL_RULE   == 1012
AUDIT_LIST_RULES == 1013

AUDIT_STATUS_ENABLED           == 1
AUDIT_STATUS_FAILURE           == 2
AUDIT_STATUS_PID               == 4
AUDIT_STATUS_RATE_LIMIT        == 8
AUDIT_STATUS_BACKLOG_LIMIT     == 16
AUDIT_STATUS_BACKLOG_WAIT_TIME == 32
AUDIT_STATUS_LOST              == 64

AUDIT_FEATURE_BITMAP_BACKLOG_LIMIT     == 1
AUDIT_FEATURE_BITMAP_BACKLOG_WAIT_TIME == 2
AUDIT_FEATURE_BITMAP_EXECUTABLE_PATH   == 4
AUDIT_FEATURE_BITMAP_EXCLUDE_EXTEND    == 8
AUDIT_FEATURE_BITMAP_SESSIONID_FILTER  == 16
AUDIT_FEATURE_BITMAP_LOST_RESET        == 32

AUDIT_FAIL_SILENT == 0
AUDIT_FAIL_PRINTK == 1
AUDIT_FAIL_PANIC  == 2

\* struct audit_status: 11 __u32 (the last one a union), in this order
StatusFields == << "mask", "enabled", "failure", "pid", "rate_limit", "backlog_limit",
                   "lost", "backlog", "feature_bitmap", "backlog_wait_time", "backlog_wait_time_actual" >>
SizeofAuditStatus    == 44
MinSizeofAuditStatus == 32      \* 2.6.32: up to and including backlog

FieldIndex(name) == CHOOSE i \in 1..Len(StatusFields) : StatusFields[i] = name

\* errno.h (asm-generic) values used by the kernel scripts
EPERM == 1
EINTR == 4
EAGAIN == 11
EEXIST == 17
EINVAL == 22

\* ---- framing ---------------------------------------------------------------------
\* struct nlmsghdr { __u32 len; __u16 type; __u16 flags; __u32 seq; __u32 pid; } + payload
\* len, type, flags are small naturals; seq and pid are limbs.
Frame(type, flags, seq, pid, payload) ==
    LE32(NLMSG_HDRLEN + Len(payload)) \o LE16(type) \o LE16(flags) \o LE32L(seq) \o LE32L(pid) \o payload

HdrLen(b)   == LimbsOfBytes(SubSeq(b, 1, 4))
HdrType(b)  == b[5] + 256 * b[6]
HdrFlags(b) == b[7] + 256 * b[8]
HdrSeq(b)   == LimbsOfBytes(SubSeq(b, 9, 12))
HdrPid(b)   == LimbsOfBytes(SubSeq(b, 13, 16))
Payload(b)  == SubSeq(b, 17, Len(b))

\* ---- audit_status ---------------------------------------------------------------
\* word i (1-based) of a status payload as limbs; words the buffer does not reach are zero
WordAt(buf, i) ==
    IF 4 * i <= Len(buf) THEN LimbsOfBytes(SubSeq(buf, 4 * i - 3, 4 * i)) ELSE LimbsZero

\* is word i completely covered by the buffer
Covered(buf, i) == 4 * i <= Len(buf)
\* is word i not covered at all
Uncovered(buf, i) == 4 * (i - 1) >= Len(buf)

\* NLMSG_ERROR payload: first word is the negated errno
AckErrno(payload) == LimbsNeg(LimbsOfBytes(SubSeq(payload, 1, 4)))
AckPayload(errno) == LE32L(LimbsNeg(Limbs(errno)))
=============================================================================
