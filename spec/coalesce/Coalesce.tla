------------------------------ MODULE Coalesce ------------------------------
(* C09 as a per-event oracle.  An "event" record holds the constituent       *)
(* records (type and the key/value pairs their Data() reported before        *)
(* coalescing) and the returned Event flattened into locations:              *)
(*     << loc, key, value >>   e.g. << "data", "exit", "0" >>,               *)
(*     << "paths", "name", ... >>, << "process", "pid", ... >>,              *)
(*     << "user.ids", "auid", ... >>, << "user.selinux", "role", ... >>,     *)
(*     << "result", "", ... >>, << "session", "", ... >>, << "tags", ...>>,  *)
(*     << "source", "ip", ... >>, << "destination", "port", ... >>,          *)
(*     << "file", "path", ... >>, << "summary", "object.primary", ... >>     *)
(* Keys and values are byte sequences, locations are strings.               *)
EXTENDS Integers, Sequences, FiniteSets, TLC, Bytes

CFlag(w) == [prop |-> "C09", why |-> w, kind |-> "", expected |-> "", got |-> ""]

AUDIT_SYSCALL == 1300
AUDIT_EOE == 1320

\* ---- byte-string helpers ---------------------------------------------------------
B(s) == s
HasPrefix(s, p) == Len(s) >= Len(p) /\ SubSeq(s, 1, Len(p)) = p
HasSuffix(s, p) == Len(s) >= Len(p) /\ SubSeq(s, Len(s) - Len(p) + 1, Len(s)) = p
HasSub(s, p) == Len(p) = 0 \/ \E i \in 1..(Len(s) - Len(p) + 1) : SubSeq(s, i, i + Len(p) - 1) = p

Uid == << 117, 105, 100 >>
Gid == << 103, 105, 100 >>
SubjUnderscore == << 115, 117, 98, 106, 95 >>
SocketUnderscore == << 115, 111, 99, 107, 101, 116, 95 >>
Items == << 105, 116, 101, 109, 115 >>
FailedToParse == << 102, 97, 105, 108, 101, 100, 32, 116, 111, 32, 112, 97, 114, 115, 101 >>

\* ---- where a key of a record may legitimately end up -------------------------------
\* l: << loc, key, value >>
Routes(k, v, l) ==
    /\ l[3] = v
    /\ \/ (l[1] \in {"data", "paths"} /\ l[2] = k)
       \/ (l[1] = "data" /\ l[2] = SocketUnderscore \o k)
       \/ l[1] = "process"
       \/ (l[1] = "user.ids" /\ l[2] = k)
       \/ (l[1] = "user.selinux" /\ HasPrefix(k, SubjUnderscore) /\ l[2] = SubSeq(k, 6, Len(k)))
       \/ l[1] \in {"result", "session", "tags", "source", "destination"}

\* every key/value of every record is somewhere, or a warning names the problem
Conserved(recs, locs, warnings) ==
    \A i \in 1..Len(recs) :
        LET r == recs[i] IN
        \/ r.err          \* the record itself failed to parse: nothing to conserve (a warning is demanded below)
        \/ \A j \in 1..Len(r.data) :
              LET k == r.data[j][1]
                  v == r.data[j][2]
              IN  \/ (r.type = AUDIT_SYSCALL /\ k = Items)
                  \/ \E n \in 1..Len(locs) : Routes(k, v, locs[n])
                  \/ \E n \in 1..Len(warnings) : HasSub(warnings[n], k)

Lost(recs, locs, warnings) ==
    { << i, j >> \in { << a, b >> : a \in 1..Len(recs), b \in 1..64 } :
        /\ ~recs[i].err /\ j <= Len(recs[i].data)
        /\ ~(recs[i].type = AUDIT_SYSCALL /\ recs[i].data[j][1] = Items)
        /\ ~\E n \in 1..Len(locs) : Routes(recs[i].data[j][1], recs[i].data[j][2], locs[n])
        /\ ~\E n \in 1..Len(warnings) : HasSub(warnings[n], recs[i].data[j][1]) }

\* ---- the file summary --------------------------------------------------------------
Oct(d) == 48 + d
Octal4(n) == << Oct((n \div 512) % 8), Oct((n \div 64) % 8), Oct((n \div 8) % 8), Oct(n % 8) >>

\* S_IFMT nibble -> object type; "" where st_mode names no file type
TypeOfMode(mode) ==
    LET t == (mode \div 4096) % 16 IN
    CASE t = 8 -> "file" [] t = 4 -> "directory" [] t = 2 -> "character-device" [] t = 6 -> "block-device"
      [] t = 1 -> "named-pipe" [] t = 10 -> "symlink" [] t = 12 -> "socket" [] OTHER -> ""

\* o: [mode, file_mode (bytes), objtype (string)] for a single-PATH event
JudgeMode(o) ==
    (IF o.file_mode # Octal4(o.mode % 4096)
     THEN << [prop |-> "C09", why |-> "file mode is not the four octal digits of mode & 07777", kind |-> "filemode", expected |-> "", got |-> ""] >>
     ELSE << >>)
    \o (IF TypeOfMode(o.mode) # "" /\ o.objtype # TypeOfMode(o.mode)
        THEN << [prop |-> "C09", why |-> "object type disagrees with the file-type bits of the mode", kind |-> "objtype",
                 expected |-> TypeOfMode(o.mode), got |-> o.objtype] >>
        ELSE << >>)

\* value of key k in a path map (sequence of << key, value >>), or << >> when absent
Get(p, k) == IF \E i \in 1..Len(p) : p[i][1] = k THEN p[CHOOSE i \in 1..Len(p) : p[i][1] = k][2] ELSE << >>
Has(p, k) == \E i \in 1..Len(p) : p[i][1] = k

NameK == << 110, 97, 109, 101 >>
InodeK == << 105, 110, 111, 100, 101 >>
RdevK == << 114, 100, 101, 118 >>
OuidK == << 111, 117, 105, 100 >>
OgidK == << 111, 103, 105, 100 >>
ModeK == << 109, 111, 100, 101 >>

\* the File summary mirrors one of the PATH maps
FileMirrors(file, paths, objPrimary) ==
    \E i \in 1..Len(paths) :
        LET p == paths[i] IN
        /\ (Has(p, NameK) => (file.path = Get(p, NameK) /\ objPrimary = Get(p, NameK)))
        /\ (Has(p, InodeK) => file.inode = Get(p, InodeK))
        /\ (Has(p, RdevK) => file.device = Get(p, RdevK))
        /\ (Has(p, OuidK) => file.uid = Get(p, OuidK))
        /\ (Has(p, OgidK) => file.gid = Get(p, OgidK))

\* ---- the event record ----------------------------------------------------------------------
\* o: [recs, n_in (records given, incl. a trailing EOE), has_syscall, ret ("event" | "err" | "panic"),
\*     id: [sec, ms, seq, type], first: [sec, ms, seq, type], locs, warnings,
\*     has_file, file: [path, inode, device, uid, gid], paths, obj_primary]
JudgeEvent(o) ==
    IF o.ret = "panic" THEN << [prop |-> "C15", why |-> "CoalesceMessages panicked", kind |-> "", expected |-> "", got |-> ""],
                                CFlag("CoalesceMessages returned neither an event nor an error (it panicked)") >>
    ELSE LET n == Len(o.recs)      \* records after dropping a trailing EOE
             mustFail == n = 0 \/ (n > 1 /\ ~o.has_syscall)
         IN
         IF mustFail THEN
             (IF o.ret # "err" THEN << CFlag("an event was returned for no records or for a multi-record group without a SYSCALL record") >> ELSE << >>)
         ELSE IF o.ret # "event" THEN << CFlag("a well-formed group was rejected") >>
         ELSE
             (IF o.id # o.first THEN << CFlag("timestamp, sequence or record type are not those of the first record") >> ELSE << >>)
             \o (IF ~Conserved(o.recs, o.locs, o.warnings)
                 THEN << CFlag("a key/value of a constituent record is neither in the event nor named by a warning") >> ELSE << >>)
             \o (IF (\E i \in 1..n : o.recs[i].err) /\ Len(o.warnings) = 0
                 THEN << CFlag("a record failed to parse but no warning is attached") >> ELSE << >>)
             \o (IF o.has_file /\ ~FileMirrors(o.file, o.paths, o.obj_primary)
                 THEN << CFlag("the file summary does not mirror any PATH record of the event") >> ELSE << >>)

Judge(o) == IF o.k = "event" THEN JudgeEvent(o) ELSE IF o.k = "mode" THEN JudgeMode(o) ELSE << >>
=============================================================================
