------------------------------ MODULE Isolation ------------------------------
(* C15: coalescing is repeatable, leaves its inputs intact and isolates      *)
(* events.  The state is what an observer can digest: for every message      *)
(* group the digest of its messages' Data/Tags/ToMapStr, for every event     *)
(* returned so far the digest of its deep content.  Operations:              *)
(*    Coalesce(g)  reads group g, returns a new event                        *)
(*    Resolve(e)   ResolveIDs on event e (may change e, nothing else)        *)
(*    Inspect      calls the accessors of every message again                *)
(* The model is the intended design (nothing but the resolved event ever     *)
(* changes); Bug = "MutatesInput" makes Coalesce alter its group's digest    *)
(* (what deleting keys from a message's cached map does).                    *)
EXTENDS Integers, Sequences, FiniteSets, TLC

CONSTANTS Groups, MaxOps, Bug

VARIABLES msgD, evD, evOf, nops, rec

ivars == << msgD, evD, evOf, nops, rec >>

\* digests are abstract values: << "m", g, version >> for groups, << "e", g, version, resolved >> for events
Init ==
    /\ msgD = [g \in Groups |-> << "m", g, 0 >>]
    /\ evD = << >>           \* sequence of event digests, index = event id
    /\ evOf = << >>          \* event id -> group
    /\ nops = 0
    /\ rec = [k |-> "init"]

Obs(op, g, e, ret) ==
    [k |-> "iso", op |-> op, group |-> g, event |-> e, ret |-> ret,
     msgs |-> msgD', events |-> evD']

Coalesce(g) ==
    /\ nops < MaxOps
    /\ evD' = Append(evD, << "e", g, msgD[g][3], FALSE >>)
    /\ evOf' = Append(evOf, g)
    /\ msgD' = IF Bug = "MutatesInput" THEN [msgD EXCEPT ![g] = << "m", g, @[3] + 1 >>] ELSE msgD
    /\ nops' = nops + 1
    /\ rec' = Obs("coalesce", g, Len(evD) + 1, "event")

Resolve(e) ==
    /\ nops < MaxOps /\ e \in 1..Len(evD)
    /\ evD' = [evD EXCEPT ![e] = << @[1], @[2], @[3], TRUE >>]
    /\ UNCHANGED << msgD, evOf >>
    /\ nops' = nops + 1
    /\ rec' = Obs("resolve", evOf[e], e, "event")

Inspect ==
    /\ nops < MaxOps
    /\ UNCHANGED << msgD, evD, evOf >>
    /\ nops' = nops + 1
    /\ rec' = Obs("inspect", 0, 0, "event")

Next == (\E g \in Groups : Coalesce(g)) \/ (\E e \in 1..Len(evD) : Resolve(e)) \/ Inspect
=============================================================================
