---------------------------- MODULE CoalesceTrace ----------------------------
EXTENDS Integers, Sequences, TLC, Json, IOUtils

C == INSTANCE Coalesce
IM == INSTANCE IsolationMonitor

Trace == ndJsonDeserialize(IOEnv.TRACE_FILE)

VARIABLES l, mon
vars == << l, mon >>
Init == l = 1 /\ mon = IM!IInit /\ TLCSet(1, 1)

Report(fl, line, r) ==
    \A i \in 1..Len(fl) :
        PrintT("FLAG " \o ToJson([prop |-> fl[i].prop, why |-> fl[i].why, kind |-> fl[i].kind, expected |-> fl[i].expected,
                                  got |-> fl[i].got, line |-> line, trace |-> IF "trace" \in DOMAIN r THEN r.trace ELSE 0]))

Next ==
    /\ l <= Len(Trace)
    /\ LET r == Trace[l] IN
         IF r.k = "reset" THEN mon' = IM!IInit
         ELSE IF r.k = "iso" THEN mon' = IM!IStep(mon, r)
         ELSE IF r.k = "race" THEN mon' = [mon EXCEPT !.flags = << IM!IFlag("data race reported while coalescing / resolving different events concurrently") >>]
         ELSE mon' = [mon EXCEPT !.flags = C!Judge(r)]
    /\ Report(mon'.flags, l, Trace[l])
    /\ l' = l + 1
    /\ TLCSet(1, l + 1)

Spec == Init /\ [][Next]_vars
AllConsumed == TLCGet(1) = Len(Trace) + 1
=============================================================================
