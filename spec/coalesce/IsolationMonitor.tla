-------------------------- MODULE IsolationMonitor --------------------------
(* The C15 property automaton over "iso" observations.  Digests are opaque  *)
(* values compared for equality only.                                       *)
EXTENDS Integers, Sequences, FiniteSets, TLC

IFlag(w) == [prop |-> "C15", why |-> w, kind |-> "", expected |-> "", got |-> ""]
EmptyFn == [x \in {} |-> 0]
PutFn(f, k, v) == [x \in DOMAIN f \cup {k} |-> IF x = k THEN v ELSE f[x]]

IInit == [ msg |-> EmptyFn,      \* group -> digest of its messages when first seen
           ev |-> EmptyFn,       \* event id -> current digest
           first |-> EmptyFn,    \* group -> digest of the first event coalesced from it
           evGroup |-> EmptyFn,  \* event id -> group it was coalesced from
           resolved |-> EmptyFn, \* group -> digest of the first event of it that was resolved
           done |-> {},          \* events that have been resolved
           flags |-> << >> ]

\* o.msgs: group -> digest ; o.events: sequence (event id -> digest) ; o.newev: digest of the event this operation returned
IStep(m0, o) ==
    LET m == [m0 EXCEPT !.flags = << >>]
        gs == DOMAIN o.msgs
        changedMsgs == { g \in gs \cap DOMAIN m.msg : o.msgs[g] # m.msg[g] }
        es == DOMAIN o.events
        changedEvs == { e \in es \cap DOMAIN m.ev : o.events[e] # m.ev[e] /\ ~(o.op = "resolve" /\ e = o.event) }
        isNew == o.op = "coalesce" /\ o.ret = "event"
        repeatDiffers == isNew /\ o.group \in DOMAIN m.first /\ o.events[o.event] # m.first[o.group]
        \* the first resolution of an event: its outcome must be the one the same messages had before
        firstRes == o.op = "resolve" /\ o.event \in DOMAIN m.evGroup /\ o.event \notin m.done /\ o.event \in es
        rg == IF firstRes THEN m.evGroup[o.event] ELSE 0
        outcomeDiffers == firstRes /\ rg \in DOMAIN m.resolved /\ o.events[o.event] # m.resolved[rg]
    IN  [m EXCEPT
           !.flags = (IF o.ret = "panic" THEN << IFlag("operation panicked") >> ELSE << >>)
                     \o (IF changedMsgs # {} THEN << IFlag("an input message reports different Data/Tags/ToMapStr after " \o o.op) >> ELSE << >>)
                     \o (IF changedEvs # {} THEN << IFlag("a previously returned event changed during " \o o.op \o " of another event") >> ELSE << >>)
                     \o (IF repeatDiffers THEN << IFlag("coalescing the same messages again yields a different event") >> ELSE << >>)
                     \o (IF outcomeDiffers THEN << IFlag("resolving the IDs of the same messages again gives a different outcome: resolving other events altered it") >> ELSE << >>),
           \* remember the latest digest: a change is flagged once, at the operation that caused it
           !.msg = [g \in gs \cup DOMAIN m.msg |-> IF g \in gs THEN o.msgs[g] ELSE m.msg[g]],
           !.ev = [e \in es |-> o.events[e]],
           !.first = IF isNew /\ o.group \notin DOMAIN m.first THEN PutFn(@, o.group, o.events[o.event]) ELSE @,
           !.evGroup = IF isNew THEN PutFn(@, o.event, o.group) ELSE @,
           !.resolved = IF firstRes /\ rg \notin DOMAIN m.resolved THEN PutFn(@, rg, o.events[o.event]) ELSE @,
           !.done = IF firstRes THEN @ \cup {o.event} ELSE @]
=============================================================================
