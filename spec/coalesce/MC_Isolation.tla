---------------------------- MODULE MC_Isolation ----------------------------
EXTENDS Isolation, Json

CONSTANTS Dump
VARIABLES mon, hist

IM == INSTANCE IsolationMonitor

vars == << ivars, mon, hist >>

MCInit == Init /\ mon = IM!IInit /\ hist = << >>
MCNext == /\ Next
          /\ mon' = IM!IStep(mon, [rec' EXCEPT !.events = [e \in 1..Len(evD') |-> evD'[e]]])
          /\ hist' = IF Dump THEN Append(hist, [op |-> rec'.op, group |-> rec'.group, event |-> rec'.event]) ELSE hist
MCSpec == MCInit /\ [][MCNext]_vars

NoFlags == Len(mon.flags) = 0
DumpBehaviours == (Dump /\ nops = MaxOps) => PrintT("BEH " \o ToJson(hist))
=============================================================================
