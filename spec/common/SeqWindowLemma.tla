--------------------------- MODULE SeqWindowLemma ---------------------------
(* The bridge between the monitors' offset order and the code's uint32      *)
(* arithmetic, for the REAL constants (M = 2^32, W = maxSortRange = 2^24-1).*)
(* For every base and every two offsets a, b of one window (0..W):          *)
(*   1. the code's comparator (sequenceNumSlice.Less) orders base+a, base+b *)
(*      exactly as a < b, also when the window straddles 2^32-1 -> 0;       *)
(*   2. the uint32 difference of the two sequence numbers is b-a, so the    *)
(*      number of skipped sequence numbers is b-a-1;                        *)
(*   3. the serial-number test used for loss accounting (difference in      *)
(*      1..2^31) holds exactly for a < b.                                   *)
(* Checked by Apalache (symbolic, --length=0); TLC re-checks the same       *)
(* statement exhaustively for small M and W in the Reassembler model        *)
(* (invariant ComparatorIsOffsetOrder).                                     *)
EXTENDS Integers

VARIABLES
    \* @type: Int;
    base,
    \* @type: Int;
    a,
    \* @type: Int;
    b

M == 4294967296
W == 16777215

SN(o) == (base + o) % M
Abs(x) == IF x < 0 THEN -x ELSE x
Less(x, y) == IF Abs(x - y) > W THEN x > y ELSE x < y
U32Sub(x, y) == (x - y + M) % M

Init == base \in 0..(M - 1) /\ a \in 0..W /\ b \in 0..W
Next == UNCHANGED << base, a, b >>

Lemma ==
    /\ a # b => (Less(SN(a), SN(b)) <=> a < b)
    /\ a < b => U32Sub(SN(b), SN(a)) = b - a
    /\ a < b => (U32Sub(SN(b), SN(a)) >= 1 /\ U32Sub(SN(b), SN(a)) <= 2147483648)
    /\ a > b => U32Sub(SN(b), SN(a)) > 2147483648
    /\ a = b => U32Sub(SN(b), SN(a)) = 0
=============================================================================
