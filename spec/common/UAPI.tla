-------------------------------- MODULE UAPI --------------------------------
(* Constants of the Linux audit rule ABI, transcribed from                  *)
(*   include/uapi/linux/audit.h, include/uapi/linux/elf-em.h,               *)
(*   include/uapi/linux/stat.h, asm-generic/errno-base.h / errno.h,         *)
(*   arch/x86/entry/syscalls/syscall_64.tbl and syscall_32.tbl.             *)
(* Nothing here is taken from go-libaudit's own tables.                     *)
EXTENDS Integers, Sequences, Bytes

\* ---- struct audit_rule_data -----------------------------------------------
AUDIT_BITMASK_SIZE == 64
AUDIT_MAX_FIELDS   == 64
RuleHeaderSize     == 1040   \* 3 words + 64 mask + 64 fields + 64 values + 64 fieldflags + buflen
AUDIT_MAX_KEY_LEN  == 256
AUDIT_KEY_SEPARATOR == 1

\* ---- filter lists (flags) and actions ----------------------------------------
ListCode(l) ==
    CASE l = "user" -> 0 [] l = "task" -> 1 [] l = "entry" -> 2 [] l = "watch" -> 3
      [] l = "exit" -> 4 [] l = "exclude" -> 5 [] l = "fs" -> 6 [] OTHER -> -1
ActionCode(a) == CASE a = "never" -> 0 [] a = "possible" -> 1 [] a = "always" -> 2 [] OTHER -> -1

\* ---- rule fields (AUDIT_PID ... AUDIT_FILTERKEY) -----------------------------
AUDIT_FIELD_COMPARE == 111
AUDIT_FILTERKEY     == 210
FieldCode(f) ==
    CASE f = "pid" -> 0 [] f = "uid" -> 1 [] f = "euid" -> 2 [] f = "suid" -> 3 [] f = "fsuid" -> 4
      [] f = "gid" -> 5 [] f = "egid" -> 6 [] f = "sgid" -> 7 [] f = "fsgid" -> 8
      [] f = "auid" -> 9 [] f = "pers" -> 10 [] f = "arch" -> 11 [] f = "msgtype" -> 12
      [] f = "subj_user" -> 13 [] f = "subj_role" -> 14 [] f = "subj_type" -> 15
      [] f = "subj_sen" -> 16 [] f = "subj_clr" -> 17 [] f = "ppid" -> 18
      [] f = "obj_user" -> 19 [] f = "obj_role" -> 20 [] f = "obj_type" -> 21
      [] f = "obj_lev_low" -> 22 [] f = "obj_lev_high" -> 23
      [] f = "devmajor" -> 100 [] f = "devminor" -> 101 [] f = "inode" -> 102
      [] f = "exit" -> 103 [] f = "success" -> 104 [] f = "path" -> 105 [] f = "perm" -> 106
      [] f = "dir" -> 107 [] f = "filetype" -> 108 [] f = "obj_uid" -> 109 [] f = "obj_gid" -> 110
      [] f = "exe" -> 112 [] f = "saddr_fam" -> 113
      [] f = "a0" -> 200 [] f = "a1" -> 201 [] f = "a2" -> 202 [] f = "a3" -> 203
      [] f = "key" -> 210
      [] OTHER -> -1

\* fields whose value lives in the string buffer (the value word is the length)
StringFields == { 13, 14, 15, 16, 17, 19, 20, 21, 22, 23, 105, 107, 112, 210 }

\* ---- operators (high bits of fieldflags), as limbs -----------------------------
OpCode(o) ==
    CASE o = "&"  -> [hi |-> 2048,  lo |-> 0]    \* AUDIT_BIT_MASK              0x08000000
      [] o = "<"  -> [hi |-> 4096,  lo |-> 0]    \* AUDIT_LESS_THAN             0x10000000
      [] o = ">"  -> [hi |-> 8192,  lo |-> 0]    \* AUDIT_GREATER_THAN          0x20000000
      [] o = "!=" -> [hi |-> 12288, lo |-> 0]    \* AUDIT_NOT_EQUAL             0x30000000
      [] o = "="  -> [hi |-> 16384, lo |-> 0]    \* AUDIT_EQUAL                 0x40000000
      [] o = "&=" -> [hi |-> 18432, lo |-> 0]    \* AUDIT_BIT_TEST              0x48000000
      [] o = "<=" -> [hi |-> 20480, lo |-> 0]    \* AUDIT_LESS_THAN_OR_EQUAL    0x50000000
      [] o = ">=" -> [hi |-> 24576, lo |-> 0]    \* AUDIT_GREATER_THAN_OR_EQUAL 0x60000000
      [] OTHER    -> [hi |-> 65535, lo |-> 65535]

\* ---- inter-field comparisons (AUDIT_COMPARE_*) ------------------------------------
\* unordered pair of field names -> code
ComparePairs ==
    << << "uid", "obj_uid", 1 >>, << "gid", "obj_gid", 2 >>, << "euid", "obj_uid", 3 >>, << "egid", "obj_gid", 4 >>,
       << "auid", "obj_uid", 5 >>, << "suid", "obj_uid", 6 >>, << "sgid", "obj_gid", 7 >>, << "fsuid", "obj_uid", 8 >>,
       << "fsgid", "obj_gid", 9 >>, << "uid", "auid", 10 >>, << "uid", "euid", 11 >>, << "uid", "fsuid", 12 >>,
       << "uid", "suid", 13 >>, << "auid", "fsuid", 14 >>, << "auid", "suid", 15 >>, << "auid", "euid", 16 >>,
       << "euid", "suid", 17 >>, << "euid", "fsuid", 18 >>, << "suid", "fsuid", 19 >>, << "gid", "egid", 20 >>,
       << "gid", "fsgid", 21 >>, << "gid", "sgid", 22 >>, << "egid", "fsgid", 23 >>, << "egid", "sgid", 24 >>,
       << "sgid", "fsgid", 25 >> >>
CompareCode(a, b) ==
    LET hits == { i \in 1..Len(ComparePairs) :
                    (ComparePairs[i][1] = a /\ ComparePairs[i][2] = b) \/ (ComparePairs[i][1] = b /\ ComparePairs[i][2] = a) }
    IN  IF hits = {} THEN -1 ELSE ComparePairs[CHOOSE i \in hits : TRUE][3]

\* ---- permissions, file types, architectures ------------------------------------------
\* AUDIT_PERM_EXEC 1, WRITE 2, READ 4, ATTR 8; letters as ASCII codes
PermBit(c) == CASE c = 120 -> 1 [] c = 119 -> 2 [] c = 114 -> 4 [] c = 97 -> 8 [] OTHER -> 0
RECURSIVE PermBitsR(_, _, _)
PermBitsR(s, i, acc) ==
    IF i > Len(s) THEN acc
    ELSE LET b == PermBit(s[i]) IN PermBitsR(s, i + 1, IF b = 0 \/ (acc \div b) % 2 = 1 THEN acc ELSE acc + b)
PermBits(letters) == PermBitsR(letters, 1, 0)

\* S_IF* of include/uapi/linux/stat.h
FileType(n) ==
    CASE n = "file" -> 32768 [] n = "dir" -> 16384 [] n = "socket" -> 49152 [] n = "symlink" -> 40960
      [] n = "char" -> 8192 [] n = "block" -> 24576 [] n = "fifo" -> 4096 [] OTHER -> -1

\* AUDIT_ARCH_* = EM_* | __AUDIT_ARCH_64BIT (0x80000000) | __AUDIT_ARCH_LE (0x40000000)
ArchValue(n) ==
    CASE n = "x86_64"  -> [hi |-> 49152, lo |-> 62]    \* 0xC000003E
      [] n = "i386"    -> [hi |-> 16384, lo |-> 3]     \* 0x40000003
      [] n = "aarch64" -> [hi |-> 49152, lo |-> 183]   \* 0xC00000B7
      [] n = "arm"     -> [hi |-> 16384, lo |-> 40]    \* 0x40000028
      [] n = "ppc"     -> [hi |-> 0,     lo |-> 20]    \* 0x00000014
      [] n = "ppc64"   -> [hi |-> 32768, lo |-> 21]    \* 0x80000015
      [] n = "ppc64le" -> [hi |-> 49152, lo |-> 21]    \* 0xC0000015
      [] n = "s390"    -> [hi |-> 0,     lo |-> 22]    \* 0x00000016
      [] n = "s390x"   -> [hi |-> 32768, lo |-> 22]    \* 0x80000016
      \* architectures for which the library has no syscall table (EM_MIPS 8, EM_IA_64 50, EM_ARM 40, EM_SPARC 2,
      \* EM_SPARCV9 43, EM_68K 4, EM_PARISC 15, EM_LOONGARCH 258)
      [] n = "mips"        -> [hi |-> 0,     lo |-> 8]
      [] n = "mipsel"      -> [hi |-> 16384, lo |-> 8]
      [] n = "mips64"      -> [hi |-> 32768, lo |-> 8]
      [] n = "mipsel64"    -> [hi |-> 49152, lo |-> 8]
      [] n = "ia64"        -> [hi |-> 49152, lo |-> 50]
      [] n = "armeb"       -> [hi |-> 0,     lo |-> 40]
      [] n = "sparc"       -> [hi |-> 0,     lo |-> 2]
      [] n = "sparc64"     -> [hi |-> 32768, lo |-> 43]
      [] n = "m68k"        -> [hi |-> 0,     lo |-> 4]
      [] n = "parisc"      -> [hi |-> 0,     lo |-> 15]
      [] n = "parisc64"    -> [hi |-> 32768, lo |-> 15]
      [] n = "loongarch64" -> [hi |-> 49152, lo |-> 258]
      [] OTHER -> [hi |-> 65535, lo |-> 65535]

\* ---- errno (asm-generic) ----------------------------------------------------------------
Errno(n) ==
    CASE n = "EPERM" -> 1 [] n = "ENOENT" -> 2 [] n = "ESRCH" -> 3 [] n = "EINTR" -> 4 [] n = "EIO" -> 5
      [] n = "ENXIO" -> 6 [] n = "E2BIG" -> 7 [] n = "ENOEXEC" -> 8 [] n = "EBADF" -> 9 [] n = "ECHILD" -> 10
      [] n = "EAGAIN" -> 11 [] n = "ENOMEM" -> 12 [] n = "EACCES" -> 13 [] n = "EFAULT" -> 14 [] n = "ENOTBLK" -> 15
      [] n = "EBUSY" -> 16 [] n = "EEXIST" -> 17 [] n = "EXDEV" -> 18 [] n = "ENODEV" -> 19 [] n = "ENOTDIR" -> 20
      [] n = "EISDIR" -> 21 [] n = "EINVAL" -> 22 [] n = "ENFILE" -> 23 [] n = "EMFILE" -> 24 [] n = "ENOTTY" -> 25
      [] n = "ETXTBSY" -> 26 [] n = "EFBIG" -> 27 [] n = "ENOSPC" -> 28 [] n = "ESPIPE" -> 29 [] n = "EROFS" -> 30
      [] n = "EMLINK" -> 31 [] n = "EPIPE" -> 32 [] n = "EDOM" -> 33 [] n = "ERANGE" -> 34
      [] n = "ENAMETOOLONG" -> 36 [] n = "ENOSYS" -> 38 [] n = "ENOTEMPTY" -> 39 [] n = "ELOOP" -> 40
      [] n = "ETIMEDOUT" -> 110 [] n = "ECONNREFUSED" -> 111
      [] OTHER -> -1

\* ---- audit message types named by include/uapi/linux/audit.h -----------------------------------
MsgType(n) ==
    CASE n = "GET" -> 1000 [] n = "SET" -> 1001 [] n = "USER" -> 1005 [] n = "LOGIN" -> 1006
      [] n = "USER_AVC" -> 1107 [] n = "USER_TTY" -> 1124
      [] n = "SYSCALL" -> 1300 [] n = "PATH" -> 1302 [] n = "IPC" -> 1303 [] n = "SOCKETCALL" -> 1304
      [] n = "CONFIG_CHANGE" -> 1305 [] n = "SOCKADDR" -> 1306 [] n = "CWD" -> 1307 [] n = "EXECVE" -> 1309
      [] n = "EOE" -> 1320 [] n = "SECCOMP" -> 1326 [] n = "PROCTITLE" -> 1327 [] n = "AVC" -> 1400
      [] OTHER -> -1

\* ---- system call numbers (x86) ---------------------------------------------------------------------
Syscall64(n) ==
    CASE n = "read" -> 0 [] n = "write" -> 1 [] n = "open" -> 2 [] n = "close" -> 3 [] n = "stat" -> 4
      [] n = "mmap" -> 9 [] n = "ioctl" -> 16 [] n = "access" -> 21 [] n = "socket" -> 41 [] n = "connect" -> 42
      [] n = "accept" -> 43 [] n = "bind" -> 49 [] n = "listen" -> 50 [] n = "clone" -> 56 [] n = "fork" -> 57
      [] n = "execve" -> 59 [] n = "kill" -> 62 [] n = "truncate" -> 76 [] n = "ftruncate" -> 77
      [] n = "rename" -> 82 [] n = "mkdir" -> 83 [] n = "rmdir" -> 84 [] n = "creat" -> 85 [] n = "unlink" -> 87
      [] n = "chmod" -> 90 [] n = "chown" -> 92 [] n = "ptrace" -> 101 [] n = "setuid" -> 105 [] n = "mount" -> 165
      [] n = "init_module" -> 175 [] n = "delete_module" -> 176 [] n = "openat" -> 257 [] n = "unlinkat" -> 263
      [] n = "accept4" -> 288 [] n = "open_by_handle_at" -> 304 [] n = "finit_module" -> 313 [] n = "execveat" -> 322
      [] OTHER -> -1
Syscall32(n) ==
    CASE n = "exit" -> 1 [] n = "fork" -> 2 [] n = "read" -> 3 [] n = "write" -> 4 [] n = "open" -> 5 [] n = "close" -> 6
      [] n = "creat" -> 8 [] n = "link" -> 9 [] n = "unlink" -> 10 [] n = "execve" -> 11 [] n = "chdir" -> 12
      [] n = "chmod" -> 15 [] n = "mount" -> 21 [] n = "setuid" -> 23 [] n = "ptrace" -> 26 [] n = "kill" -> 37
      [] n = "rename" -> 38 [] n = "mkdir" -> 39 [] n = "rmdir" -> 40 [] n = "truncate" -> 92 [] n = "ftruncate" -> 93
      [] n = "socketcall" -> 102 [] n = "clone" -> 120 [] n = "init_module" -> 128 [] n = "delete_module" -> 129
      [] n = "openat" -> 295 [] n = "open_by_handle_at" -> 342 [] n = "execveat" -> 358 [] n = "bind" -> 361
      [] n = "connect" -> 362 [] n = "accept4" -> 364
      \* old and new entry points that live side by side in the 32-bit table, names with a leading underscore
      [] n = "oldstat" -> 18 [] n = "umount" -> 22 [] n = "umount2" -> 52 [] n = "select" -> 82 [] n = "mmap" -> 90
      [] n = "stat" -> 106 [] n = "_llseek" -> 140 [] n = "_newselect" -> 142 [] n = "_sysctl" -> 149 [] n = "mmap2" -> 192
      [] OTHER -> -1
SyscallNr(arch, n) == IF arch = "i386" THEN Syscall32(n) ELSE IF arch = "x86_64" THEN Syscall64(n) ELSE -1

\* the names transcribed above, for reverse look-ups
SyscallNames64 == { "read", "write", "open", "close", "stat", "mmap", "ioctl", "access", "socket", "connect", "accept", "bind",
                    "listen", "clone", "fork", "execve", "kill", "truncate", "ftruncate", "rename", "mkdir", "rmdir", "creat", "unlink",
                    "chmod", "chown", "ptrace", "setuid", "mount", "init_module", "delete_module", "openat", "unlinkat", "accept4",
                    "open_by_handle_at", "finit_module", "execveat" }
SyscallNames32 == { "exit", "fork", "read", "write", "open", "close", "creat", "link", "unlink", "execve", "chdir", "chmod", "mount",
                    "setuid", "ptrace", "kill", "rename", "mkdir", "rmdir", "truncate", "ftruncate", "socketcall", "clone",
                    "init_module", "delete_module", "openat", "open_by_handle_at", "execveat", "bind", "connect", "accept4",
                    "oldstat", "umount", "umount2", "select", "mmap", "stat", "_llseek", "_newselect", "_sysctl", "mmap2" }
\* the names the kernel's table gives to number nr (empty when it is not among the transcribed ones)
NamesOfNr(arch, nr) ==
    IF arch = "x86_64" THEN { n \in SyscallNames64 : Syscall64(n) = nr }
    ELSE IF arch = "i386" THEN { n \in SyscallNames32 : Syscall32(n) = nr } ELSE {}
=============================================================================
