------------------------------- MODULE Bytes -------------------------------
(* Byte-level helpers shared by every family.                              *)
(*                                                                         *)
(* TLC integers are 32-bit Java ints and its Json module wraps anything    *)
(* >= 2^31, so no 32-bit quantity is ever carried as one number: a uint32  *)
(* is a record [hi |-> 0..65535, lo |-> 0..65535] ("limbs"), a sequence of *)
(* little-endian bytes, or a sequence of decimal digits.                   *)
EXTENDS Integers, Sequences, SequencesExt, Functions

Byte == 0..255

Min2(a, b) == IF a < b THEN a ELSE b
Max2(a, b) == IF a > b THEN a ELSE b

\* ---- little endian encodings ------------------------------------------
LE16(n) == << n % 256, (n \div 256) % 256 >>

\* limbs -> 4 little-endian bytes
LE32L(u) == LE16(u.lo) \o LE16(u.hi)

\* a natural < 2^31 as limbs / bytes
Limbs(n) == [hi |-> n \div 65536, lo |-> n % 65536]
LE32(n)  == LE32L(Limbs(n))

\* 4 bytes (little endian) -> limbs
LimbsOfBytes(b) == [lo |-> b[1] + 256 * b[2], hi |-> b[3] + 256 * b[4]]

\* limbs arithmetic (mod 2^32)
LimbsAdd(a, b) ==
    LET lo == a.lo + b.lo
        c  == lo \div 65536
    IN  [lo |-> lo % 65536, hi |-> (a.hi + b.hi + c) % 65536]

LimbsZero == [hi |-> 0, lo |-> 0]
LimbsEq(a, b) == a.hi = b.hi /\ a.lo = b.lo
LimbsLess(a, b) == a.hi < b.hi \/ (a.hi = b.hi /\ a.lo < b.lo)

\* two's complement negation mod 2^32
LimbsNeg(a) ==
    IF a.hi = 0 /\ a.lo = 0 THEN a
    ELSE LET lo == (65536 - a.lo) % 65536
             b  == IF a.lo = 0 THEN 0 ELSE 1
         IN  [lo |-> lo, hi |-> (65536 - a.hi - b) % 65536]

\* ---- sub-sequences that never fail --------------------------------------
Slice(s, from, to) ==      \* 1-based, inclusive, clipped
    IF to < from THEN << >> ELSE SubSeq(s, Max2(from, 1), Min2(to, Len(s)))

Zeros(n) == [i \in 1..n |-> 0]

\* ---- decimal digits -----------------------------------------------------
RECURSIVE DigitsOf(_)
DigitsOf(n) == IF n < 10 THEN << n >> ELSE Append(DigitsOf(n \div 10), n % 10)

\* value of a digit sequence known to be short (<= 9 digits)
RECURSIVE ValueOf(_)
ValueOf(d) == IF Len(d) = 0 THEN 0
              ELSE 10 * ValueOf(SubSeq(d, 1, Len(d) - 1)) + d[Len(d)]

\* limbs -> decimal digits (exact for the whole uint32 range)
\* value = hi*65536 + lo; long division by 10 on two limbs
RECURSIVE LimbsDigitsR(_)
LimbsDigitsR(u) ==
    IF u.hi = 0 /\ u.lo < 10 THEN << u.lo >>
    ELSE LET qh == u.hi \div 10
             rh == u.hi % 10
             t  == rh * 65536 + u.lo
             ql == t \div 10
             r  == t % 10
         IN  Append(LimbsDigitsR([hi |-> qh + (ql \div 65536), lo |-> ql % 65536]), r)
LimbsDigits(u) == LimbsDigitsR(u)

\* decimal digits -> limbs (mod 2^32); ok is FALSE when the value exceeds 2^32-1
RECURSIVE DigitsLimbsR(_)
DigitsLimbsR(d) ==
    IF Len(d) = 0 THEN [v |-> LimbsZero, ok |-> TRUE]
    ELSE LET p  == DigitsLimbsR(SubSeq(d, 1, Len(d) - 1))
             lo == p.v.lo * 10 + d[Len(d)]
             hi == p.v.hi * 10 + (lo \div 65536)
         IN  [v |-> [lo |-> lo % 65536, hi |-> hi % 65536],
              ok |-> p.ok /\ hi < 65536]

\* ---- ASCII --------------------------------------------------------------
DigitChar(d) == 48 + d
AsciiDigits(ds) == [i \in 1..Len(ds) |-> 48 + ds[i]]
HexUpper(n) == IF n < 10 THEN 48 + n ELSE 55 + n     \* 'A' = 65
HexLower(n) == IF n < 10 THEN 48 + n ELSE 87 + n     \* 'a' = 97
HexOfBytes(bs) == [i \in 1..(2 * Len(bs)) |->
                     IF i % 2 = 1 THEN HexUpper(bs[(i + 1) \div 2] \div 16)
                                  ELSE HexUpper(bs[i \div 2] % 16)]

=============================================================================
